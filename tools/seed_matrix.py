#!/usr/bin/env python3
"""Runs quick checks against seeded changes, sequentially.
  [ISO=/tmp/mx] seed_matrix.py [--target-only] [--scale X] [--redo] [seed ids...]
Without ISO it uses /repo itself (nothing else may use /repo meanwhile); with ISO it uses the isolated
copy made by tools/iso_setup.sh.  Results are merged into <root>/seeded/MATRIX.json (all checks, run
at --scale, default 0.5) or <root>/seeded/TARGET.json (--target-only: only the check of the property
the seed was written against, default scale 1 = exactly the registered quick command)."""
import subprocess, json, os, re, sys, time
ISO = os.environ.get("ISO")
ROOT = ISO + "/verif" if ISO else "/verif"
REPO = ISO + "/repo" if ISO else "/repo"
args = sys.argv[1:]
target_only = "--target-only" in args
redo = "--redo" in args
scale = None
if "--scale" in args:
    i = args.index("--scale"); scale = args[i + 1]; args = args[:i] + args[i + 2:]
only = [a for a in args if not a.startswith("--")]
if scale is None:
    scale = "1" if target_only else "0.5"
props = [json.loads(l)["id"] for l in open(ROOT + "/properties.jsonl")]
seeds = sorted(d for d in os.listdir(ROOT + "/seeded") if re.match(r"C\d+-\d+$", d) and os.path.isdir(ROOT + "/seeded/" + d))
out_path = ROOT + "/seeded/" + ("TARGET.json" if target_only else "MATRIX.json")
res = json.load(open(out_path)) if os.path.exists(out_path) else {}
def sh(c): return subprocess.run(c, shell=True, stdout=subprocess.PIPE, stderr=subprocess.STDOUT, text=True)
def cleanup():
    sh("git -C %s reset -q; git -C %s checkout -- ." % (REPO, REPO))
    if ISO:
        sh("cd %s && rm -rf replays evidence && rsync -a /verif/replays /verif/evidence ." % ROOT)
    else:
        sh("cd %s && git clean -fdq replays/ && git checkout -q -- evidence/" % ROOT)
for s in seeds:
    if only and s not in only: continue
    meta = json.load(open("%s/seeded/%s/meta.json" % (ROOT, s)))
    todo = [meta["breaks_property"]] if target_only else props
    if not redo and s in res and all(p in res[s] for p in todo): continue
    assert not sh("git -C %s status --porcelain --untracked-files=no" % REPO).stdout.strip()
    r = sh("git -C %s apply %s/seeded/%s/patch.diff" % (REPO, ROOT, s))
    if r.returncode != 0:
        res[s] = {"error": "apply failed: " + r.stdout[-200:]}; continue
    row = {}
    try:
        for p in todo:
            t0 = time.time()
            c = sh("cd %s && MQV_NO_SHRINK=1 timeout -k 5 600 ./check %s --tier quick --scale %s" % (ROOT, p, scale))
            kinds = sorted(set(re.findall(r"^  ([A-Za-z]+):", c.stdout, re.M)))
            row[p] = {"exit": c.returncode, "kinds": kinds, "s": round(time.time() - t0, 1)}
            if c.returncode not in (0, 1):
                row[p]["tail"] = c.stdout[-600:]
    finally:
        cleanup()
    res[s] = row
    json.dump(res, open(out_path, "w"), indent=1, sort_keys=True)
    print(s, {p: v["exit"] for p, v in row.items()} if target_only else {p: v["exit"] for p, v in row.items() if v["exit"] != 0}, flush=True)
