#!/usr/bin/env python3
"""Runs every quick check against every seeded change (sequentially; uses /repo itself).
Writes /verif/seeded/MATRIX.json.  Nothing else may use /repo while this runs."""
import subprocess, json, os, re, sys, time
ROOT="/verif"
props=[json.loads(l)["id"] for l in open(ROOT+"/properties.jsonl")]
seeds=sorted(d for d in os.listdir(ROOT+"/seeded") if os.path.isdir(ROOT+"/seeded/"+d))
only=sys.argv[1:]
out_path=ROOT+"/seeded/MATRIX.json"
res=json.load(open(out_path)) if os.path.exists(out_path) else {}
def sh(c): return subprocess.run(c, shell=True, stdout=subprocess.PIPE, stderr=subprocess.STDOUT, text=True)
for s in seeds:
    if only and s not in only: continue
    if s in res and len(res[s])==len(props): continue
    assert not sh("git -C /repo status --porcelain --untracked-files=no").stdout.strip()
    r=sh("git -C /repo apply %s/seeded/%s/patch.diff" % (ROOT,s))
    if r.returncode!=0:
        res[s]={"error":"apply failed: "+r.stdout[-200:]}; continue
    row={}
    try:
        for p in props:
            t0=time.time()
            c=sh("cd %s && MQV_NO_SHRINK=1 timeout -k 5 420 ./check %s --tier quick --scale 0.5" % (ROOT,p))
            kinds=sorted(set(re.findall(r"^  ([A-Za-z]+):", c.stdout, re.M)))
            row[p]={"exit":c.returncode,"kinds":kinds,"s":round(time.time()-t0,1)}
            if c.returncode==2:
                row[p]["tail"]=c.stdout[-600:]
    finally:
        sh("git -C /repo reset -q; git -C /repo checkout -- .")
        sh("cd %s && git clean -fdq replays/ && git checkout -q -- evidence/" % ROOT)
    res[s]=row
    json.dump(res, open(out_path,"w"), indent=1, sort_keys=True)
    print(s, {p:v["exit"] for p,v in row.items() if v["exit"]!=0}, flush=True)
