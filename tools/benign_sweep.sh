#!/bin/bash
# benign_sweep.sh [ISO dir] : every quick check against every property-preserving change in seeded/benign/
# (in the isolated copy made by tools/iso_setup.sh; /repo itself is not touched). One line per check.
D=${1:-/tmp/mx}
/verif/tools/iso_setup.sh $D > /dev/null
cd /verif
for b in seeded/benign/*.diff; do
  echo "=== $b"
  ISO=$D MQV_NO_SHRINK=1 python3 tools/try_seed.py /verif/$b C01 C02 C03 C04 C05 C06 C07 C08 C09 C10 C11 C12 C13 C14 C15 C16 C17 C18 C19
done
