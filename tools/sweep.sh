#!/bin/bash
# sweep.sh "<seeds>" [tier]: every check for every given VERIF_SEED on the current tree; one line per run
cd "$(dirname "$0")/.."
for s in $1; do
  for p in C01 C02 C03 C04 C05 C06 C07 C08 C09 C10 C11 C12 C13 C14 C15 C16 C17 C18 C19; do
    out=$(./check $p --tier ${2:-quick} --seed $s 2>&1); rc=$?
    echo "seed=$s $p exit=$rc $(echo "$out" | grep -c '^VIOLATION') violations; $(echo "$out" | tail -1 | cut -c1-160)"
    [ $rc -ne 0 ] && echo "$out" | grep -B1 '^VIOLATION' | cut -c1-300
  done
done
