#!/usr/bin/env python3
"""Apply a seeded change to /repo, run checks, undo.  usage: try_seed.py <diff> <prop> [<prop>...] [--tier T]"""
import subprocess, sys, time, os, re
diff = sys.argv[1]
args = sys.argv[2:]
tier = "quick"
if "--tier" in args:
    i = args.index("--tier"); tier = args[i+1]; args = args[:i] + args[i+2:]
props = args
def sh(cmd, **kw):
    return subprocess.run(cmd, shell=True, stdout=subprocess.PIPE, stderr=subprocess.STDOUT, text=True, **kw)
st = sh("git -C /repo status --porcelain --untracked-files=no")
if st.stdout.strip():
    print("REPO NOT CLEAN:", st.stdout); sys.exit(3)
r = sh("git -C /repo apply -3 %s" % diff)
if r.returncode != 0:
    r2 = sh("cd /repo && patch -p1 --no-backup-if-mismatch < %s" % diff)
    if r2.returncode != 0:
        print("APPLY FAILED", r.stdout[-500:], r2.stdout[-500:]); sh("git -C /repo reset -q; git -C /repo checkout -- . ; rm -f /repo/src/*.rej /repo/src/*.orig"); sys.exit(3)
try:
    for p in props:
        t0 = time.time()
        c = sh("cd /verif && ./check %s --tier %s" % (p, tier))
        viol = re.findall(r"^VIOLATION.*$", c.stdout, re.M)
        kinds = sorted(set(re.findall(r"^  ([A-Za-z]+):", c.stdout, re.M)))
        print("%s exit=%d %.0fs violations=%d kinds=%s" % (p, c.returncode, time.time()-t0, len(viol), kinds))
        if c.returncode == 2:
            print(c.stdout[-1500:])
finally:
    sh("git -C /repo reset -q; git -C /repo checkout -- .")
    # remove replay files produced while the seed was applied
    sh("cd /verif && git clean -fdq replays/ && git checkout -q -- evidence/")
