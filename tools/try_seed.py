#!/usr/bin/env python3
"""Apply a seeded change to /repo (or, with ISO=<dir>, to the isolated copy made by tools/iso_setup.sh),
run checks, undo.  usage: [ISO=/tmp/mx] try_seed.py <diff> <prop> [<prop>...] [--tier T] [--seed N]"""
import subprocess, sys, time, os, re
diff = sys.argv[1]
args = sys.argv[2:]
tier = "quick"
extra = ""
if "--tier" in args:
    i = args.index("--tier"); tier = args[i+1]; args = args[:i] + args[i+2:]
if "--seed" in args:
    i = args.index("--seed"); extra += " --seed " + args[i+1]; args = args[:i] + args[i+2:]
props = args
ISO = os.environ.get("ISO")
REPO = ISO + "/repo" if ISO else "/repo"
VERIF = ISO + "/verif" if ISO else "/verif"
def sh(cmd, **kw):
    return subprocess.run(cmd, shell=True, stdout=subprocess.PIPE, stderr=subprocess.STDOUT, text=True, **kw)
def revert():
    sh("git -C %s reset -q; git -C %s checkout -- . ; rm -f %s/src/*.rej %s/src/*.orig" % (REPO, REPO, REPO, REPO))
st = sh("git -C %s status --porcelain --untracked-files=no" % REPO)
if st.stdout.strip():
    print("REPO NOT CLEAN:", st.stdout); sys.exit(3)
r = sh("git -C %s apply -3 %s" % (REPO, diff))
if r.returncode != 0:
    r2 = sh("cd %s && patch -p1 --no-backup-if-mismatch < %s" % (REPO, diff))
    if r2.returncode != 0:
        print("APPLY FAILED", r.stdout[-500:], r2.stdout[-500:]); revert(); sys.exit(3)
try:
    for p in props:
        t0 = time.time()
        c = sh("cd %s && ./check %s --tier %s%s" % (VERIF, p, tier, extra))
        viol = re.findall(r"^VIOLATION.*$", c.stdout, re.M)
        kinds = sorted(set(re.findall(r"^  ([A-Za-z]+):", c.stdout, re.M)))
        print("%s exit=%d %.0fs violations=%d kinds=%s" % (p, c.returncode, time.time()-t0, len(viol), kinds))
        if c.returncode == 2:
            print(c.stdout[-1500:])
finally:
    revert()
    # remove replay files produced while the seed was applied
    if ISO:
        sh("cd %s && rm -rf replays/found && rsync -a --delete /verif/replays/ replays/ && rsync -a --delete /verif/evidence/ evidence/" % VERIF)
    else:
        sh("cd /verif && git clean -fdq replays/ && git checkout -q -- evidence/")
