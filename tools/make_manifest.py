#!/usr/bin/env python3
"""Writes /verif/MANIFEST.json from the table below (kept in one place so it stays valid)."""
import json, os, subprocess
ROOT = os.path.dirname(os.path.dirname(os.path.abspath(__file__)))

SCHED = "schedule-generating property-based testing: proptest generates and shrinks (configuration, per-thread programs, schedule); the real instrumented code runs on a serialising scheduler; oracle over the call log; plus systematic enumeration of all one-deviation (thorough: two-deviation) schedules per generated scenario where listed, and in the thorough tier a libFuzzer+ASan campaign with a structure-aware mutator over serialised scenarios"
SEQ = "stateful model-based property-based testing (proptest histories + bounded-exhaustive enumeration) against an executable reference model"
TRUST = "trusted base: the shim in src/verif_hooks.rs (thin wrappers over the real primitives), the harness scheduler and oracles in /verif/harness; only sequentially consistent interleavings are explored"

CHECKS = {
 "C01": dict(engine="E1 detsched", technique=SCHED, design="§4 C01",
   text="Generated-schedule exploration of exactly-once delivery: every accepted value reaches every draining stream once, nothing invented, duplicated, or delivered after being refused. Sampling of SC interleavings at the granularity of single shared-memory operations; no proof."),
 "C02": dict(engine="E1 detsched", technique=SCHED, design="§4 C02",
   text="Generated-schedule exploration; oracle is acyclicity of the precedence graph built from real-time send order, per-consumer order and per-stream order, which holds iff one total order exists."),
 "C03": dict(engine="E1 detsched", technique=SCHED, design="§4 C03",
   text="Generated-schedule exploration of the capacity bound with a counting oracle per (accepted send, stream) that needs no linearisation, over requested capacities 0..9."),
 "C05": dict(engine="E2 seqmodel + E1 detsched", technique=SEQ + "; payload ledger as oracle", design="§4 C05",
   text="Random and bounded-exhaustive sequential histories plus small concurrent scenarios, each ending in a generated teardown order; a per-instance ledger decides that every payload and clone is dropped exactly once."),
 "C07": dict(engine="E1 detsched", technique=SCHED, design="§4 C07",
   text="Generated-schedule exploration of sender hang-up: every end report is checked against live senders, undelivered accepted values and later calls."),
 "C08": dict(engine="E1 detsched", technique=SCHED + "; liveness decided as a scheduler stuck-state", design="§4 C08",
   text="Generated-schedule exploration under every built-in wait strategy and spin configuration; a missed wake-up shows as a deadlock/livelock verdict of the deterministic scheduler with a receiver inside a blocking call while a value or the hang-up is available."),
 "C09": dict(engine="E2 seqmodel", technique=SEQ, design="§4 C09",
   text="Every return value of random (1-400 calls) and of all depth<=4/5 single-threaded histories over all handle families is compared with the reference model; exhaustive only within the stated depth and alphabet."),
 "C12": dict(engine="E1 detsched", technique=SCHED, design="§4 C12",
   text="Traffic scenarios whose threads (and, on futures queues, Sink/Stream tasks) clone/drop/convert handles between operations, checked with the delivery, order, capacity and hang-up oracles and every stuck state."),
 "C13": dict(engine="E2 seqmodel + E1 detsched", technique=SEQ + "; " + SCHED, design="§4 C13",
   text="Sequential histories that drop every receiver in generated orders and then send through every sender flavour, plus concurrent scenarios racing a parking Sink task with the last receiver's drop."),
 "C15": dict(engine="E2 seqmodel + E1 detsched", technique=SEQ + "; " + SCHED, design="§4 C15",
   text="Futures handles: model comparison of sequential Sink/Stream histories with a per-call step bound (no waiting inside poll/start_send) and the notification duty that NotReady implies, and concurrent traffic through tasks on a deterministic executor."),
}

CHECKS.update({
 "C04": dict(engine="E1 detsched", technique=SCHED + "; self-checking payload as oracle", design="§4 C04",
   text="The payload's Clone and every view closure contain a scheduling point, so a clone/view can be suspended for arbitrarily long while producers wrap the ring; two payload types (with and without a destructor, the latter in a second harness binary); the payload checks itself (well-formed, live, unchanged) at both ends of every observation."),
 "C06": dict(engine="E1 detsched", technique=SCHED + "; quiescent probes compared with the reference model", design="§4 C06",
   text="Concurrent phases that stop without draining, followed by single-threaded fill/drain/refill/drain probes compared with the model computed from the recorded history."),
 "C10": dict(engine="E1 detsched", technique=SCHED, design="§4 C10",
   text="add_stream raced with producers and sibling consumers; the new stream's drained sequence must be a contiguous suffix of a witness stream's order starting within the parent's position range during the call; delivery/order/capacity oracles on all streams. Known finding D8 (multi-handle parent raced by a sibling) is matched structurally."),
 "C11": dict(engine="E1 detsched", technique=SCHED + "; liveness decided as a scheduler stuck-state", design="§4 C11",
   text="Handles of a slow stream dropped/unsubscribed while producers retry on a full queue; stuck producers, unsubscribe return values and collateral damage on remaining streams are checked."),
 "C14": dict(engine="E1 detsched + E2 seqmodel", technique=SCHED + "; deterministic futures executor; sequential notify oracle", design="§4 C14",
   text="Sink/Stream tasks on a deterministic executor where NotReady blocks the thread until Notify::notify; a missed notification is a scheduler deadlock with a parked task that could progress. Sequential part: every call that makes progress possible for a parked task must have notified it. Hold sweep: for each generated scenario every thread is held at each of its first 400 scheduling points in turn until no other thread can make progress, then runs on."),
 "C16": dict(engine="E1 detsched + quarantine", technique=SCHED + "; freed blocks are quarantined and every instrumented access is checked against them", design="§4 C16",
   text="Stream/handle churn racing with writers scanning the stream list; any atomic access or dereference of bookkeeping memory that was already freed, any double or invalid free is reported."),
 "C17": dict(engine="E3 memacct", technique="property-based testing with a counting global allocator as oracle (generated teardown histories and churn loops)", design="§4 C17",
   text="Bytes attributed to the queue must return to the baseline after every generated teardown, and must plateau across 2c..4c generated churn cycles."),
 "C18": dict(engine="E1 detsched", technique=SCHED + "; solo-run step bound", design="§4 C18",
   text="At generated points all other threads are frozen wherever they are and one try operation runs alone; it must return within a fixed number of its own steps and never block. In addition every try operation of every generated execution may execute at most that many scheduling points in a row without another thread changing shared state, and a freeze sweep suspends, for each generated scenario, every thread for good at each of its first 400 scheduling points in turn while the others run on."),
 "C19": dict(engine="E5 typeprobe", technique="generated compile probes: one rustc program per (handle type x payload class x closure class x trait), exhaustive over the finite table", design="§4 C19",
   text="The compiler decides each cell of the Send/Sync table; the expected table is derived from the statement only.",
   note="trusted base: rustc's auto-trait checking; one representative type per payload/closure class"),
})

def main():
    hooks_commits = subprocess.check_output(
        ["git", "-C", "/repo", "log", "--format=%h", "--grep", "^verif hooks"]).decode().split()
    checks = []
    for pid in sorted(CHECKS):
        c = CHECKS[pid]
        checks.append({
            "property_id": pid,
            "quick_cmd": "./check %s --tier quick" % pid,
            "thorough_cmd": "./check %s --tier thorough" % pid,
            "evidence_file": "/verif/evidence/%s.json" % pid,
            "replay_cmd_template": "./check %s --replay {path}" % pid,
            "engine": c["engine"],
            "level_claimed": {"category": "exploration", "text": c["text"], "design_ref": c["design"]},
            "level_note": c.get("note", TRUST),
            "technique": c["technique"],
        })
    props = [json.loads(l)["id"] for l in open(os.path.join(ROOT, "properties.jsonl"))]
    na = [{"property_id": p, "reason": "check not yet registered: its generator profile is still being built (see DESIGN.md section 9, order of work); no other technique is substituted"}
          for p in props if p not in CHECKS]
    m = {
        "version": 1,
        "setup_cmd": "cd harness && CARGO_NET_OFFLINE=true cargo build --release --offline && CARGO_NET_OFFLINE=true cargo build --release --offline --features pod_payload --target-dir target-pod",
        "hooks": {
            "guard": "cargo feature multiqueue2_verif",
            "enable": "the harness crate /verif/harness depends on /repo with features=[\"multiqueue2_verif\"]; nothing else enables it",
            "baseline_off_cmd": "cd /repo && cargo test --workspace --no-fail-fast --offline",
            "source_commits": list(reversed(hooks_commits)),
            "add_only": True,
        },
        "engines": [
            {"name": "E1 detsched", "path": "harness/src/rt.rs", "serves_properties": ["C01","C02","C03","C04","C06","C07","C08","C10","C11","C12","C13","C14","C16","C18"],
             "kind_free_text": "serialising scheduler over the instrumented crate; the schedule is a generated, shrinkable, replayable input"},
            {"name": "E2 seqmodel", "path": "harness/src/model.rs", "serves_properties": ["C05","C09","C13","C14","C15"],
             "kind_free_text": "single managed thread executing API histories against the reference model, with per-call step bounds"},
            {"name": "E3 memacct", "path": "harness/src/mem.rs", "serves_properties": ["C17"],
             "kind_free_text": "counting global allocator that attributes allocations made inside calls into the crate"},
            {"name": "E4 covfuzz", "path": "harness/fuzz", "serves_properties": ["C01","C02","C03","C04","C06","C07","C08","C10","C11","C12","C13","C14","C15","C16","C18"],
             "kind_free_text": "thorough tier: libFuzzer + AddressSanitizer over serialised scenarios with a structure-aware custom mutator; the property's oracle runs inside the target"},
            {"name": "E5 typeprobe", "path": "check", "serves_properties": ["C19"],
             "kind_free_text": "generated rustc probe programs for the Send/Sync table"},
        ],
        "checks": checks,
        "notes": "All checks are driven by ./check (python3, no third-party modules), which rebuilds harness/ against /repo's working tree, runs 16 worker processes and merges their reports into evidence/<id>.json. known_findings.json lists repaired and recorded defects.",
        "not_applicable": na,
    }
    with open(os.path.join(ROOT, "MANIFEST.json"), "w") as f:
        json.dump(m, f, indent=1)
    print("wrote MANIFEST.json with %d checks, %d not yet claimed" % (len(checks), len(na)))

main()
