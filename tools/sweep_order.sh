#!/bin/bash
# sweep_order.sh <tier> <seed> <ids...>: the given checks in the given order on the current tree; one line per run
cd "$(dirname "$0")/.."
t=$1; s=$2; shift 2
for p in "$@"; do
  out=$(./check $p --tier $t --seed $s 2>&1); rc=$?
  echo "seed=$s $p exit=$rc $(echo "$out" | grep -c '^VIOLATION') violations; $(echo "$out" | tail -1 | cut -c1-160)"
  [ $rc -ne 0 ] && echo "$out" | grep -B1 '^VIOLATION' | cut -c1-300
done
