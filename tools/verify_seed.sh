#!/bin/bash
# usage: [SEEDROOT=/tmp/seed3 SEEDTAG=r3-] verify_seed.sh <Cxx> ; verifies both mutants of $SEEDROOT/<Cxx>/SEED in that scratch worktree
P=$1
W=${SEEDROOT:-/tmp/seed}/$P
L=/verif/.work/seedlogs/${SEEDTAG:-}$P.log
cd $W || exit 1
: > $L
git checkout -q -- src tests 2>/dev/null
for k in 1 2; do
  D=$W/SEED/mutant$k.diff
  [ -f $D ] || { echo "mutant$k: no diff" >> $L; continue; }
  cp $W/SEED/demo$k.rs $W/tests/zz_demo$k.rs 2>/dev/null
  # clean tree: demo must pass
  timeout 900 cargo test --offline --test zz_demo$k > $W/SEED/verify_demo${k}_clean.log 2>&1; rc_clean=$?
  git apply $D >> $L 2>&1 || { echo "mutant$k: APPLY FAILED" >> $L; rm -f $W/tests/zz_demo$k.rs; continue; }
  cargo build --offline --features multiqueue2_verif > $W/SEED/verify_build${k}.log 2>&1; rc_feat=$?
  timeout 900 cargo test --offline --test zz_demo$k > $W/SEED/verify_demo${k}_mutant.log 2>&1; rc_mut=$?
  rm -f $W/tests/zz_demo$k.rs
  timeout 1500 cargo test --offline --no-fail-fast > $W/SEED/verify_suite${k}.log 2>&1; rc_suite=$?
  nfail=$(grep -c "^test .* FAILED" $W/SEED/verify_suite${k}.log)
  echo "mutant$k: demo_clean_rc=$rc_clean demo_mutant_rc=$rc_mut feature_build_rc=$rc_feat suite_rc=$rc_suite suite_failed_tests=$nfail" >> $L
  grep "^test .* FAILED" $W/SEED/verify_suite${k}.log >> $L
  git checkout -q -- src
done
echo done >> $L
