#!/usr/bin/env python3
"""Rewrites the seeded-change table in DESIGN.md (between the SEED-TABLE markers) from
seeded/*/meta.json and seeded/MATRIX.json."""
import json, os, re
ROOT = os.path.dirname(os.path.dirname(os.path.abspath(__file__)))
import re as _re
def _key(d):
    m = _re.match(r"C(\d+)-(\d+)$", d)
    return (int(m.group(1)), int(m.group(2)))
seeds = sorted((d for d in os.listdir(os.path.join(ROOT, "seeded")) if _re.match(r"C\d+-\d+$", d) and os.path.isdir(os.path.join(ROOT, "seeded", d))), key=_key)
mpath = os.path.join(ROOT, "seeded", "MATRIX.json")
matrix = json.load(open(mpath)) if os.path.exists(mpath) else {}
# TARGET.json: the registered quick command of the target property only, at full scale
tpath = os.path.join(ROOT, "seeded", "TARGET.json")
target = json.load(open(tpath)) if os.path.exists(tpath) else {}
rows = ["| seed | breaks | needs (abridged) | target check: finding kinds | also caught by |", "|---|---|---|---|---|"]
for s in seeds:
    meta = json.load(open(os.path.join(ROOT, "seeded", s, "meta.json")))
    prop = meta["breaks_property"]
    row = matrix.get(s, {})
    if row and "error" not in row:
        tgt = row.get(prop, {})
        kinds = ", ".join(tgt.get("kinds", [])) or ("(exit %s)" % tgt.get("exit"))
        if tgt.get("exit") == 1 and not tgt.get("kinds"):
            kinds = "cell mismatch"
        others = [p for p, v in sorted(row.items()) if p != prop and v.get("exit") == 1]
        broken = [p for p, v in sorted(row.items()) if v.get("exit") == 2]
        slow = [p for p, v in sorted(row.items()) if v.get("exit") not in (0, 1, 2)]
        also = ", ".join(others) + ((" (inconclusive: " + ", ".join(broken) + ")") if broken else "") \
            + ((" (stopped after 7 min: " + ", ".join(slow) + ")") if slow else "")
        tgt_txt = ("**caught**: " if tgt.get("exit") == 1 else "**MISSED**: ") + kinds
    elif s in target and prop in target[s]:
        tgt = target[s][prop]
        kinds = ", ".join(tgt.get("kinds", [])) or ("(exit %s)" % tgt.get("exit"))
        if tgt.get("exit") == 1 and not tgt.get("kinds"):
            kinds = "cell mismatch"
        tgt_txt = ("**caught**: " if tgt.get("exit") == 1 else "**MISSED**: ") + kinds
        also = ", ".join(c for c in meta.get("caught_by_checks", []) if c != prop)
        also = (also + " (other checks: as tried by hand, matrix row not run)") if also else "(matrix row not run)"
    else:
        tgt_txt = "caught (" + ", ".join(meta.get("caught_by_checks", [])[:1]) + "; matrix not run)"
        also = ", ".join(meta.get("caught_by_checks", [])[1:])
    needs = meta["needs_to_manifest"]
    if len(needs) > 150:
        needs = needs[:147] + "..."
    rows.append("| %s | %s | %s | %s | %s |" % (s, prop, needs.replace("|", "/"), tgt_txt, also or "-"))
table = "\n".join(rows)
p = os.path.join(ROOT, "DESIGN.md")
txt = open(p).read()
txt = re.sub(r"<!-- SEED-TABLE-BEGIN -->.*?<!-- SEED-TABLE-END -->",
             "<!-- SEED-TABLE-BEGIN -->\n" + table + "\n<!-- SEED-TABLE-END -->", txt, flags=re.S)
open(p, "w").write(txt)
print("table with %d rows written; matrix rows available: %d" % (len(seeds), len(matrix)))
