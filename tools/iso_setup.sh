#!/bin/bash
# iso_setup.sh [dir]: an isolated copy of /verif plus a scratch worktree of /repo (default /tmp/mx), so that
# seeded changes can be tried while /repo itself is in use.  Remove with: iso_setup.sh --remove [dir]
if [ "$1" = "--remove" ]; then
  D=${2:-/tmp/mx}
  git -C /repo worktree remove --force $D/repo 2>/dev/null
  rm -rf $D; git -C /repo worktree prune; exit 0
fi
D=${1:-/tmp/mx}
mkdir -p $D
[ -d $D/repo ] || git -C /repo worktree add --detach $D/repo HEAD >/dev/null 2>&1
git -C $D/repo checkout -q --detach $(git -C /repo rev-parse HEAD)
rsync -a --delete --exclude harness/target --exclude harness/target-pod --exclude harness/fuzz/target --exclude .work --exclude .git /verif/ $D/verif/
mkdir -p $D/verif/.work
sed -i "s|path = \"/repo\"|path = \"$D/repo\"|" $D/verif/harness/Cargo.toml
sed -i "s|\"/repo/Cargo.toml\"|\"$D/repo/Cargo.toml\"|" $D/verif/check
cp /repo/Cargo.lock $D/repo/Cargo.lock 2>/dev/null
echo "isolated copy in $D"
