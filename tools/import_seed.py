#!/usr/bin/env python3
"""import_seed.py <id> <prop> <diff> <demo> <needs> <caught_by comma list> [<ported note>]
Stores a confirmed seeded change under /verif/seeded/<id>/ with a patch that applies to /repo HEAD."""
import subprocess, sys, os, json, shutil
sid, prop, diff, demo, needs, caught = sys.argv[1:7]
note = sys.argv[7] if len(sys.argv) > 7 else ""
def sh(c):
    # ISO=<dir>: use the scratch worktree of tools/iso_setup.sh instead of /repo itself
    if os.environ.get("ISO"):
        c = c.replace("/repo", os.environ["ISO"] + "/repo")
    return subprocess.run(c, shell=True, stdout=subprocess.PIPE, stderr=subprocess.STDOUT, text=True)
assert not sh("git -C /repo status --porcelain --untracked-files=no").stdout.strip(), "repo not clean"
r = sh("git -C /repo apply -3 %s" % diff)
if r.returncode != 0:
    sh("git -C /repo reset -q; git -C /repo checkout -- .; rm -f /repo/src/*.rej /repo/src/*.orig")
    print("apply failed", r.stdout); sys.exit(1)
d = "/verif/seeded/%s" % sid
os.makedirs(d, exist_ok=True)
patch = sh("git -C /repo diff HEAD").stdout
open(os.path.join(d, "patch.diff"), "w").write(patch)
sh("git -C /repo reset -q; git -C /repo checkout -- .")
shutil.copy(demo, os.path.join(d, "demo.rs"))
head = sh("git -C /repo log --format=%h -1").stdout.strip()
# SEEDLOG=<file> MUTANT=<k> override where the confirmation line is read from (later seeding rounds)
logf = os.environ.get("SEEDLOG", "/verif/.work/seedlogs/%s.log" % sid.split("-")[0])
ver = ""
if os.path.exists(logf):
    k = os.environ.get("MUTANT", sid.split("-")[1])
    for l in open(logf):
        if l.startswith("mutant%s:" % k): ver = l.strip()
meta = {
    "id": sid, "breaks_property": prop,
    "needs_to_manifest": needs,
    "source": "written by an independent sub-agent that was given only the property text and a scratch worktree",
    "confirmed": {
        "how": "tools/verify_seed.sh in the scratch worktree: demo on the clean tree (must pass), patch applied, build with --features multiqueue2_verif, demo again (must fail), full test suite (must pass)",
        "result": ver or "see DESIGN.md",
    },
    "patch_applies_to_repo_commit": head,
    "caught_by_checks": [c for c in caught.split(",") if c],
    "how_checks_were_run": "tools/try_seed.py <patch> <ids>: git -C /repo apply, ./check <id> --tier quick, git -C /repo checkout -- .",
    "note": note,
}
json.dump(meta, open(os.path.join(d, "meta.json"), "w"), indent=1)
print("stored", d, len(patch.splitlines()), "patch lines")
