#![no_main]
//! libFuzzer target with a structure-aware custom mutator.
//!
//! Inputs are serialised scenarios `{"part": <name>, "scenario": {...}}` of one property
//! (MQV_FUZZ_PROP).  The seed corpus is sampled from the property's own generators
//! (`mqv gencorpus`); the custom mutator applies structural mutations (operations, schedule bytes,
//! schedule policy, queue configuration); libFuzzer keeps inputs that reach new coverage in the
//! instrumented crate.  The semantic oracle of the property runs inside the target; a violation
//! is written as a replay file and reported as a crash.
use libfuzzer_sys::{fuzz_mutator, fuzz_target};
use std::sync::OnceLock;

struct Ctx {
    reg: Vec<mqv::runner::PropDef>,
    prop: usize,
    known: mqv::runner::KnownFile,
    out: String,
}

fn ctx() -> &'static Ctx {
    static C: OnceLock<Ctx> = OnceLock::new();
    C.get_or_init(|| {
        let reg = mqv::props::registry();
        let want = std::env::var("MQV_FUZZ_PROP").unwrap_or_else(|_| "C01".to_string());
        let prop = reg.iter().position(|d| d.id == want).expect("unknown MQV_FUZZ_PROP");
        let known = std::env::var("MQV_KNOWN")
            .ok()
            .and_then(|p| std::fs::read_to_string(p).ok())
            .and_then(|s| serde_json::from_str(&s).ok())
            .unwrap_or_default();
        let out = std::env::var("MQV_FUZZ_OUT").unwrap_or_else(|_| "/verif/.work/fuzz-out".to_string());
        let _ = std::fs::create_dir_all(&out);
        mqv::rt::sched();
        Ctx { reg, prop, known, out }
    })
}

#[derive(serde::Serialize, serde::Deserialize)]
struct Input {
    part: String,
    scenario: mqv::ops::Scenario,
}

fuzz_target!(|data: &[u8]| {
    let inp: Input = match serde_json::from_slice(data) {
        Ok(i) => i,
        Err(_) => return,
    };
    let c = ctx();
    let def = &c.reg[c.prop];
    if let Some(v) = mqv::runner::fuzz_one(def, &inp.part, &inp.scenario, &c.known) {
        let body = serde_json::json!({"property": def.id, "case": v});
        let name = format!("{}/{}-fuzz-{}.json", c.out, def.id, std::process::id());
        let _ = std::fs::write(&name, serde_json::to_string(&body).unwrap());
        eprintln!("MQV-FUZZ-VIOLATION {} {}", def.id, name);
        panic!(
            "property violation found by the fuzzer: {:?}",
            v.findings.iter().map(|f| f.kind.clone()).collect::<Vec<_>>()
        );
    }
});

fuzz_mutator!(|data: &mut [u8], size: usize, max_size: usize, seed: u32| {
    let mut inp: Input = match serde_json::from_slice(&data[..size]) {
        Ok(i) => i,
        // not one of ours: leave it alone (it will be ignored by the target)
        Err(_) => return size,
    };
    mqv::runner::mutate_scenario(&mut inp.scenario, seed as u64 ^ ((size as u64) << 32));
    let out = match serde_json::to_vec(&inp) {
        Ok(o) => o,
        Err(_) => return size,
    };
    if out.len() > max_size || out.len() > data.len() {
        return size;
    }
    data[..out.len()].copy_from_slice(&out);
    out.len()
});
