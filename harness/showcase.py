import json,sys
for fn in sys.argv[1:]:
    v=json.load(open(fn))['case']
    print('==',fn,'part',v['part'],v['verdict'])
    for f in v['findings']: print('   ',f['kind'],f['detail'][:500], f['facts'])
    print('   q',v['scenario']['q'], 'policy', v['scenario']['sched']['policy'], 'bytes', len(v['scenario']['sched']['bytes']))
    for i,p in enumerate(v['scenario']['progs']): print('   prog',i,p['ops'])
    print('   trace',v['trace_rle'][:80])
