import json,sys
r=json.load(sys.stdin)['report']
print('evals',r['evaluations'],'nontriv',len(r['nontrivial_hashes']),'wall',round(r['wall_s'],2),r['verdicts'],'parts',r['parts'],'excl',r['excluded_known'])
print('  counters',{k:v for k,v in r['counters'].items()}, 'max',r['maxima'])
if '-c' in sys.argv:
    for k,v in sorted(r['classes'].items()): print('   ',k,v)
for v in r['violations']:
    print('VIOL part',v['part'],'shrunk',v['shrunk'],v['verdict'])
    for f in v['findings']: print('   ',f['kind'],f['detail'][:400], f['facts'])
    print('   q',v['scenario']['q'], 'policy', v['scenario']['sched']['policy'], 'bytes', len(v['scenario']['sched']['bytes']))
    for i,p in enumerate(v['scenario']['progs']): print('   prog',i,p['ops'])
    print('   trace',v['trace_rle'][:60])
