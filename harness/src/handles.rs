//! Uniform wrappers over the twelve public handle types.

use crate::payload::{Seen, Tracked};
use crate::rt::sched;
use futures::executor::{self, Notify, NotifyHandle};
use futures::{future, Async, AsyncSink, Future, Sink, Stream};
use multiqueue2 as mq;
use multiqueue2::wait::{BlockingWait, BusyWait, YieldingWait};
use std::sync::mpsc::{TryRecvError, TrySendError};
use std::sync::{Arc, Mutex};

#[derive(Clone, Copy, Debug, PartialEq, Eq, Hash, serde::Serialize, serde::Deserialize)]
pub enum Flavour {
    Broadcast,
    Mpmc,
}

#[derive(Clone, Copy, Debug, PartialEq, Eq, Hash, serde::Serialize, serde::Deserialize)]
pub enum WaitKind {
    Busy,
    Yield(u8, u8),
    Block(u8, u8),
    /// default constructors (50/50 spins)
    YieldDefault,
    BlockDefault,
}

#[derive(Clone, Copy, Debug, PartialEq, Eq, Hash, serde::Serialize, serde::Deserialize)]
pub struct QCfg {
    pub flavour: Flavour,
    pub futures: bool,
    /// requested capacity
    pub cap: u8,
    pub wait: WaitKind,
    /// futures spin configuration (try_spins, yield_spins); None = default constructor.
    /// (mpmc futures queues only have the default constructor)
    pub fut_spins: Option<(u8, u8)>,
}

/// requested capacities encoded by `cap` values >= LARGE_CAP_BASE (the serialised field stays a u8):
/// powers of two and their neighbours up to 2^17, around the 8/16-bit boundaries of the distance
/// arithmetic (round-9 seed C03-10 keeps the writer-to-slowest-reader distance in a u16)
pub const LARGE_CAP_BASE: u8 = 200;
pub const LARGE_CAPS: &[u64] = &[255, 256, 257, 1000, 4096, 32768, 65531, 65535, 65536, 65537, 131072];

impl QCfg {
    /// the capacity passed to the constructor
    pub fn requested(&self) -> u64 {
        if self.cap >= LARGE_CAP_BASE {
            LARGE_CAPS[(self.cap - LARGE_CAP_BASE) as usize % LARGE_CAPS.len()]
        } else {
            self.cap as u64
        }
    }
    pub fn n(&self) -> usize {
        let c = self.requested() as usize;
        if c == 0 {
            1
        } else {
            c.next_power_of_two()
        }
    }
    pub fn spins(&self) -> (u64, u64) {
        // the crate's own defaults (public constants), not numbers copied from it: a tree that
        // tunes them keeps every step bound and stuck-state threshold in proportion
        let dflt = (mq::wait::DEFAULT_TRY_SPINS as u64, mq::wait::DEFAULT_YIELD_SPINS as u64);
        if self.futures {
            match (self.flavour, self.fut_spins) {
                (Flavour::Broadcast, Some((a, b))) => (a as u64, b as u64),
                _ => dflt,
            }
        } else {
            match self.wait {
                WaitKind::Busy => (0, 0),
                WaitKind::Yield(a, b) | WaitKind::Block(a, b) => (a as u64, b as u64),
                _ => dflt,
            }
        }
    }
}

pub type VF = Box<dyn FnMut(&Tracked) -> Seen + Send>;

pub fn vf() -> VF {
    Box::new(|t: &Tracked| t.view())
}

pub enum Tx {
    B(mq::BroadcastSender<Tracked>),
    M(mq::MPMCSender<Tracked>),
    BF(mq::BroadcastFutSender<Tracked>),
    MF(mq::MPMCFutSender<Tracked>),
}

pub enum Rx {
    B(mq::BroadcastReceiver<Tracked>),
    BU(mq::BroadcastUniReceiver<Tracked>),
    M(mq::MPMCReceiver<Tracked>),
    MU(mq::MPMCUniReceiver<Tracked>),
    BF(mq::BroadcastFutReceiver<Tracked>),
    BFU(mq::BroadcastFutUniReceiver<Seen, VF, Tracked>),
    MF(mq::MPMCFutReceiver<Tracked>),
    MFU(mq::MPMCFutUniReceiver<Seen, VF, Tracked>),
}

#[derive(Clone, Copy, Debug, PartialEq, Eq, Hash, serde::Serialize, serde::Deserialize)]
pub enum RxKind {
    B,
    BU,
    M,
    MU,
    BF,
    BFU,
    MF,
    MFU,
}

#[derive(Clone, Copy, Debug, PartialEq, Eq, Hash, serde::Serialize, serde::Deserialize)]
pub enum SendOut {
    Ok,
    Full(Seen),
    Disc(Seen),
    /// AsyncSink::NotReady(msg)
    NotReady(Seen),
    /// Err(SendError(msg))
    Err(Seen),
}

#[derive(Clone, Copy, Debug, PartialEq, Eq, Hash, serde::Serialize, serde::Deserialize)]
pub enum RecvOut {
    Val(Seen),
    Empty,
    End,
}

pub fn create(c: &QCfg) -> (Tx, Rx) {
    let cap = c.requested();
    match (c.flavour, c.futures) {
        (Flavour::Broadcast, false) => {
            let (t, r) = match c.wait {
                WaitKind::Busy => mq::broadcast_queue_with(cap, BusyWait::new()),
                WaitKind::Yield(a, b) => {
                    mq::broadcast_queue_with(cap, YieldingWait::with_spins(a as usize, b as usize))
                }
                WaitKind::Block(a, b) => {
                    mq::broadcast_queue_with(cap, BlockingWait::with_spins(a as usize, b as usize))
                }
                WaitKind::YieldDefault => mq::broadcast_queue_with(cap, YieldingWait::new()),
                WaitKind::BlockDefault => mq::broadcast_queue(cap),
            };
            (Tx::B(t), Rx::B(r))
        }
        (Flavour::Mpmc, false) => {
            let (t, r) = match c.wait {
                WaitKind::Busy => mq::mpmc_queue_with(cap, BusyWait::new()),
                WaitKind::Yield(a, b) => {
                    mq::mpmc_queue_with(cap, YieldingWait::with_spins(a as usize, b as usize))
                }
                WaitKind::Block(a, b) => {
                    mq::mpmc_queue_with(cap, BlockingWait::with_spins(a as usize, b as usize))
                }
                WaitKind::YieldDefault => mq::mpmc_queue_with(cap, YieldingWait::new()),
                WaitKind::BlockDefault => mq::mpmc_queue(cap),
            };
            (Tx::M(t), Rx::M(r))
        }
        (Flavour::Broadcast, true) => {
            let (t, r) = match c.fut_spins {
                Some((a, b)) => mq::broadcast_fut_queue_with(cap, a as usize, b as usize),
                None => mq::broadcast_fut_queue(cap),
            };
            (Tx::BF(t), Rx::BF(r))
        }
        (Flavour::Mpmc, true) => {
            let (t, r) = mq::mpmc_fut_queue(cap);
            (Tx::MF(t), Rx::MF(r))
        }
    }
}

// ---- task context ------------------------------------------------------------------------

/// ids >= TASK_ID_BASE are harness-level task ids (sequential engine); smaller ids are managed
/// thread ids (concurrent engine).
pub const TASK_ID_BASE: usize = 1000;

struct HNotify;

static NOTIFIED: Mutex<Vec<usize>> = Mutex::new(Vec::new());

impl Notify for HNotify {
    fn notify(&self, id: usize) {
        let _nc = crate::mem::NoCount::new();
        if id >= TASK_ID_BASE {
            let mut n = NOTIFIED.lock().unwrap_or_else(|p| p.into_inner());
            if !n.contains(&id) {
                n.push(id);
            }
        } else {
            sched().unpark(id);
        }
    }
}

pub fn notified_reset() {
    NOTIFIED.lock().unwrap_or_else(|p| p.into_inner()).clear();
}

pub fn notified_take(id: usize) -> bool {
    let mut n = NOTIFIED.lock().unwrap_or_else(|p| p.into_inner());
    if let Some(p) = n.iter().position(|x| *x == id) {
        n.swap_remove(p);
        true
    } else {
        false
    }
}

pub fn notified_peek(id: usize) -> bool {
    NOTIFIED
        .lock()
        .unwrap_or_else(|p| p.into_inner())
        .contains(&id)
}

fn notify_handle() -> NotifyHandle {
    thread_local! {
        static H: NotifyHandle = NotifyHandle::from(Arc::new(HNotify));
    }
    H.with(|h| h.clone())
}

/// Runs `f` inside a futures-0.1 task whose notifications go to `task_id`.
pub fn in_task<R, F: FnOnce() -> R>(task_id: usize, f: F) -> R {
    // the executor plumbing belongs to the harness; only `f` is a call into the crate
    let counting = crate::mem::is_counting();
    let _nc = crate::mem::NoCount::new();
    let handle = notify_handle();
    let mut s = executor::spawn(future::lazy(move || {
        let _c = if counting { Some(crate::mem::Count::on()) } else { None };
        Ok::<R, ()>(f())
    }));
    match s.poll_future_notify(&handle, task_id) {
        Ok(Async::Ready(r)) => r,
        _ => unreachable!(),
    }
}

#[allow(dead_code)]
fn _assert_future<F: Future>(_: &F) {}

// ---- senders -----------------------------------------------------------------------------

fn map_try_send(r: Result<(), TrySendError<Tracked>>) -> (SendOut, Option<Tracked>) {
    match r {
        Ok(()) => (SendOut::Ok, None),
        Err(TrySendError::Full(v)) => (SendOut::Full(v.seen()), Some(v)),
        Err(TrySendError::Disconnected(v)) => (SendOut::Disc(v.seen()), Some(v)),
    }
}

impl Tx {
    pub fn is_futures(&self) -> bool {
        matches!(self, Tx::BF(_) | Tx::MF(_))
    }

    /// Returns the outcome and the value handed back (if any).
    pub fn try_send(&self, v: Tracked) -> (SendOut, Option<Tracked>) {
        map_try_send(match self {
            Tx::B(t) => t.try_send(v),
            Tx::M(t) => t.try_send(v),
            Tx::BF(t) => t.try_send(v),
            Tx::MF(t) => t.try_send(v),
        })
    }

    /// `Sink::start_send` inside task `task_id` (falls back to try_send on plain senders).
    pub fn start_send(&mut self, v: Tracked, task_id: usize, by_ref: bool) -> (SendOut, Option<Tracked>) {
        fn map(r: Result<AsyncSink<Tracked>, std::sync::mpsc::SendError<Tracked>>) -> (SendOut, Option<Tracked>) {
            match r {
                Ok(AsyncSink::Ready) => (SendOut::Ok, None),
                Ok(AsyncSink::NotReady(v)) => (SendOut::NotReady(v.seen()), Some(v)),
                Err(std::sync::mpsc::SendError(v)) => (SendOut::Err(v.seen()), Some(v)),
            }
        }
        match self {
            Tx::BF(t) => in_task(task_id, move || {
                if by_ref {
                    map((&*t).start_send(v))
                } else {
                    map(t.start_send(v))
                }
            }),
            Tx::MF(t) => in_task(task_id, move || {
                if by_ref {
                    map((&*t).start_send(v))
                } else {
                    map(t.start_send(v))
                }
            }),
            _ => self.try_send(v),
        }
    }

    /// `Sink::poll_complete`; true = Ready(())
    pub fn poll_complete(&mut self, task_id: usize) -> bool {
        match self {
            Tx::BF(t) => in_task(task_id, move || matches!(t.poll_complete(), Ok(Async::Ready(())))),
            Tx::MF(t) => in_task(task_id, move || matches!(t.poll_complete(), Ok(Async::Ready(())))),
            _ => true,
        }
    }

    pub fn dup(&self) -> Tx {
        match self {
            Tx::B(t) => Tx::B(t.clone()),
            Tx::M(t) => Tx::M(t.clone()),
            Tx::BF(t) => Tx::BF(t.clone()),
            Tx::MF(t) => Tx::MF(t.clone()),
        }
    }

    pub fn unsubscribe(self) {
        match self {
            Tx::B(t) => t.unsubscribe(),
            Tx::M(t) => t.unsubscribe(),
            Tx::BF(t) => t.unsubscribe(),
            Tx::MF(t) => t.unsubscribe(),
        }
    }
}

// ---- receivers ---------------------------------------------------------------------------

fn map_try_recv(r: Result<Tracked, TryRecvError>) -> RecvOut {
    match r {
        Ok(v) => {
            let s = v.check_delivered();
            drop(v);
            RecvOut::Val(s)
        }
        Err(TryRecvError::Empty) => RecvOut::Empty,
        Err(TryRecvError::Disconnected) => RecvOut::End,
    }
}

fn map_recv<E>(r: Result<Tracked, E>) -> RecvOut {
    match r {
        Ok(v) => {
            let s = v.check_delivered();
            drop(v);
            RecvOut::Val(s)
        }
        Err(_) => RecvOut::End,
    }
}

fn map_view_try(r: Result<Seen, TryRecvError>) -> RecvOut {
    match r {
        Ok(s) => RecvOut::Val(s),
        Err(TryRecvError::Empty) => RecvOut::Empty,
        Err(TryRecvError::Disconnected) => RecvOut::End,
    }
}

fn map_poll_t(r: Result<Async<Option<Tracked>>, ()>) -> RecvOut {
    match r {
        Ok(Async::Ready(Some(v))) => {
            let s = v.check_delivered();
            drop(v);
            RecvOut::Val(s)
        }
        Ok(Async::Ready(None)) => RecvOut::End,
        Ok(Async::NotReady) => RecvOut::Empty,
        Err(()) => RecvOut::End,
    }
}

fn map_poll_s(r: Result<Async<Option<Seen>>, ()>) -> RecvOut {
    match r {
        Ok(Async::Ready(Some(s))) => RecvOut::Val(s),
        Ok(Async::Ready(None)) => RecvOut::End,
        Ok(Async::NotReady) => RecvOut::Empty,
        Err(()) => RecvOut::End,
    }
}

fn conv_t(v: Tracked) -> Seen {
    let s = v.check_delivered();
    drop(v);
    s
}

fn conv_s(s: Seen) -> Seen {
    s
}

fn pump<X, I: Iterator<Item = X>>(
    mut it: I,
    max: usize,
    conv: fn(X) -> Seen,
    tick: &dyn Fn() -> u64,
    emit: &mut dyn FnMut(Option<Seen>, u64, u64),
) {
    let mut n = 0;
    while n < max {
        let t0 = tick();
        let r = it.next().map(conv);
        let t1 = tick();
        let stop = r.is_none();
        emit(r, t0, t1);
        n += 1;
        if stop {
            break;
        }
    }
}

/// A non-blocking iterator that is kept across a pause: `next()` until it reports None (or `max`
/// items), then `mid()` (the caller sends a value meanwhile), then up to two more `next()` calls on
/// the same iterator.  Every `next()` is one try_recv in the model, also after a None.
fn pump_across<X, I: Iterator<Item = X>>(
    mut it: I,
    max: usize,
    conv: fn(X) -> Seen,
    tick: &dyn Fn() -> u64,
    emit: &mut dyn FnMut(Option<Seen>, u64, u64),
    mid: &mut dyn FnMut(),
    after: usize,
    pause: &dyn Fn(),
) {
    let mut n = 0;
    while n < max {
        let t0 = tick();
        let r = it.next().map(conv);
        let t1 = tick();
        let stop = r.is_none();
        emit(r, t0, t1);
        n += 1;
        if stop {
            break;
        }
    }
    mid();
    for _ in 0..after {
        let t0 = tick();
        let r = it.next().map(conv);
        let t1 = tick();
        emit(r, t0, t1);
        pause();
    }
}

impl Rx {
    /// `mid` receives the receiver itself (shared borrow, as the iterator holds one too), so that it
    /// can clone it while the iterator is alive; afterwards `after` more `next()` calls, each
    /// followed by `pause()`.
    pub fn try_iter_across(
        &self,
        max: usize,
        variant: u8,
        tick: &dyn Fn() -> u64,
        emit: &mut dyn FnMut(Option<Seen>, u64, u64),
        mid: &mut dyn FnMut(&Rx),
        after: usize,
        pause: &dyn Fn(),
    ) -> Option<()> {
        let mut m = || mid(self);
        match self {
            Rx::B(r) => Some(if variant % 2 == 0 {
                pump_across(r.try_iter(), max, conv_t, tick, emit, &mut m, after, pause)
            } else {
                pump_across((&*r).into_iter(), max, conv_t, tick, emit, &mut m, after, pause)
            }),
            Rx::M(r) => Some(if variant % 2 == 0 {
                pump_across(r.try_iter(), max, conv_t, tick, emit, &mut m, after, pause)
            } else {
                pump_across((&*r).into_iter(), max, conv_t, tick, emit, &mut m, after, pause)
            }),
            Rx::BU(r) => Some(if variant % 2 == 0 {
                pump_across((&*r).into_iter(), max, conv_t, tick, emit, &mut m, after, pause)
            } else {
                pump_across(r.try_iter_with(|t| t.view()), max, conv_s, tick, emit, &mut m, after, pause)
            }),
            Rx::MU(r) => Some(if variant % 2 == 0 {
                pump_across((&*r).into_iter(), max, conv_t, tick, emit, &mut m, after, pause)
            } else {
                pump_across(r.try_iter_with(|t| t.view()), max, conv_s, tick, emit, &mut m, after, pause)
            }),
            _ => None,
        }
    }

    pub fn kind(&self) -> RxKind {
        match self {
            Rx::B(_) => RxKind::B,
            Rx::BU(_) => RxKind::BU,
            Rx::M(_) => RxKind::M,
            Rx::MU(_) => RxKind::MU,
            Rx::BF(_) => RxKind::BF,
            Rx::BFU(_) => RxKind::BFU,
            Rx::MF(_) => RxKind::MF,
            Rx::MFU(_) => RxKind::MFU,
        }
    }

    pub fn is_futures(&self) -> bool {
        matches!(self, Rx::BF(_) | Rx::BFU(_) | Rx::MF(_) | Rx::MFU(_))
    }

    pub fn is_uni(&self) -> bool {
        matches!(self, Rx::BU(_) | Rx::MU(_) | Rx::BFU(_) | Rx::MFU(_))
    }

    pub fn is_mpmc(&self) -> bool {
        matches!(self, Rx::M(_) | Rx::MU(_) | Rx::MF(_) | Rx::MFU(_))
    }

    pub fn try_recv(&mut self) -> RecvOut {
        match self {
            Rx::B(r) => map_try_recv(r.try_recv()),
            Rx::BU(r) => map_try_recv(r.try_recv()),
            Rx::M(r) => map_try_recv(r.try_recv()),
            Rx::MU(r) => map_try_recv(r.try_recv()),
            Rx::BF(r) => map_try_recv(r.try_recv()),
            Rx::MF(r) => map_try_recv(r.try_recv()),
            Rx::BFU(r) => map_view_try(r.try_recv()),
            Rx::MFU(r) => map_view_try(r.try_recv()),
        }
    }

    /// Blocking receive.
    pub fn recv(&mut self) -> RecvOut {
        match self {
            Rx::B(r) => map_recv(r.recv()),
            Rx::BU(r) => map_recv(r.recv()),
            Rx::M(r) => map_recv(r.recv()),
            Rx::MU(r) => map_recv(r.recv()),
            Rx::BF(r) => map_recv(r.recv()),
            Rx::MF(r) => map_recv(r.recv()),
            Rx::BFU(r) => match r.recv() {
                Ok(s) => RecvOut::Val(s),
                Err(_) => RecvOut::End,
            },
            Rx::MFU(r) => match r.recv() {
                Ok(s) => RecvOut::Val(s),
                Err(_) => RecvOut::End,
            },
        }
    }

    pub fn has_view(&self) -> bool {
        matches!(self, Rx::BU(_) | Rx::MU(_))
    }

    /// try_recv_view on the plain single-consumer receivers (None if the handle has no such method).
    pub fn try_view(&mut self) -> Option<RecvOut> {
        match self {
            Rx::BU(r) => Some(map_view_try(r.try_recv_view(|t| t.view()).map_err(|e| e.1))),
            Rx::MU(r) => Some(map_view_try(r.try_recv_view(|t| t.view()).map_err(|e| e.1))),
            _ => None,
        }
    }

    pub fn recv_view(&mut self) -> Option<RecvOut> {
        match self {
            Rx::BU(r) => Some(match r.recv_view(|t| t.view()) {
                Ok(s) => RecvOut::Val(s),
                Err(_) => RecvOut::End,
            }),
            Rx::MU(r) => Some(match r.recv_view(|t| t.view()) {
                Ok(s) => RecvOut::Val(s),
                Err(_) => RecvOut::End,
            }),
            _ => None,
        }
    }

    /// Non-blocking iterator (`try_iter`, `&rx` into_iter, `try_iter_with`): up to `max` calls of
    /// `next()`.  `variant` selects among the equivalent entry points.  Every `next()` is
    /// returned with its logical start/end time; a `None` item ends the list.
    pub fn try_iter(&mut self, max: usize, variant: u8, tick: &dyn Fn() -> u64, emit: &mut dyn FnMut(Option<Seen>, u64, u64)) -> Option<()> {
        match self {
            Rx::B(r) => Some(if variant % 2 == 0 {
                pump(r.try_iter(), max, conv_t, tick, emit)
            } else {
                pump((&*r).into_iter(), max, conv_t, tick, emit)
            }),
            Rx::M(r) => Some(if variant % 2 == 0 {
                pump(r.try_iter(), max, conv_t, tick, emit)
            } else {
                pump((&*r).into_iter(), max, conv_t, tick, emit)
            }),
            Rx::BU(r) => Some(if variant % 2 == 0 {
                pump((&*r).into_iter(), max, conv_t, tick, emit)
            } else {
                pump(r.try_iter_with(|t| t.view()), max, conv_s, tick, emit)
            }),
            Rx::MU(r) => Some(if variant % 2 == 0 {
                pump((&*r).into_iter(), max, conv_t, tick, emit)
            } else {
                pump(r.try_iter_with(|t| t.view()), max, conv_s, tick, emit)
            }),
            _ => None,
        }
    }

    pub fn has_iter(&self) -> bool {
        matches!(self, Rx::B(_) | Rx::M(_) | Rx::BU(_) | Rx::MU(_))
    }

    /// Blocking iterator (`into_iter`, `iter_with`): consumes the handle, calls `next()` up to
    /// `max` times (stops at the end of the stream); the handle is dropped with the iterator.
    pub fn into_iter_take(self, max: usize, variant: u8, tick: &dyn Fn() -> u64, emit: &mut dyn FnMut(Option<Seen>, u64, u64)) -> Result<(), Rx> {
        match self {
            Rx::B(r) => Ok(pump(r.into_iter(), max, conv_t, tick, emit)),
            Rx::M(r) => Ok(pump(r.into_iter(), max, conv_t, tick, emit)),
            Rx::BU(r) => Ok(if variant % 2 == 0 {
                pump(r.into_iter(), max, conv_t, tick, emit)
            } else {
                pump(r.iter_with(|t| t.view()), max, conv_s, tick, emit)
            }),
            Rx::MU(r) => Ok(if variant % 2 == 0 {
                pump(r.into_iter(), max, conv_t, tick, emit)
            } else {
                pump(r.iter_with(|t| t.view()), max, conv_s, tick, emit)
            }),
            other => Err(other),
        }
    }

    /// `Stream::poll` inside task `task_id` (None on plain handles).
    pub fn poll(&mut self, task_id: usize, by_ref: bool) -> Option<RecvOut> {
        match self {
            Rx::BF(r) => Some(in_task(task_id, move || {
                if by_ref {
                    map_poll_t((&*r).poll())
                } else {
                    map_poll_t(r.poll())
                }
            })),
            Rx::MF(r) => Some(in_task(task_id, move || {
                if by_ref {
                    map_poll_t((&*r).poll())
                } else {
                    map_poll_t(r.poll())
                }
            })),
            Rx::BFU(r) => Some(in_task(task_id, move || map_poll_s(r.poll()))),
            Rx::MFU(r) => Some(in_task(task_id, move || map_poll_s(r.poll()))),
            _ => None,
        }
    }

    pub fn can_add_stream(&self) -> bool {
        matches!(self, Rx::B(_) | Rx::BF(_) | Rx::BFU(_) | Rx::MFU(_))
    }

    /// add_stream / add_stream_with
    pub fn add_stream(&self) -> Option<Rx> {
        match self {
            Rx::B(r) => Some(Rx::B(r.add_stream())),
            Rx::BF(r) => Some(Rx::BF(r.add_stream())),
            Rx::BFU(r) => Some(Rx::BFU(r.add_stream_with(vf()))),
            Rx::MFU(r) => Some(Rx::MFU(r.add_stream_with(vf()))),
            _ => None,
        }
    }

    pub fn can_clone(&self) -> bool {
        matches!(self, Rx::B(_) | Rx::M(_) | Rx::BF(_) | Rx::MF(_))
    }

    pub fn dup(&self) -> Option<Rx> {
        match self {
            Rx::B(r) => Some(Rx::B(r.clone())),
            Rx::M(r) => Some(Rx::M(r.clone())),
            Rx::BF(r) => Some(Rx::BF(r.clone())),
            Rx::MF(r) => Some(Rx::MF(r.clone())),
            _ => None,
        }
    }

    /// into_single: Ok(new handle) or Err(original handle) when the stream has other consumers
    /// (or the handle is already single: returned unchanged as Err).
    pub fn into_single(self) -> Result<Rx, Rx> {
        match self {
            Rx::B(r) => r.into_single().map(Rx::BU).map_err(Rx::B),
            Rx::M(r) => r.into_single().map(Rx::MU).map_err(Rx::M),
            Rx::BF(r) => r.into_single(vf()).map(Rx::BFU).map_err(|e| Rx::BF(e.1)),
            Rx::MF(r) => r.into_single(vf()).map(Rx::MFU).map_err(|e| Rx::MF(e.1)),
            other => Err(other),
        }
    }

    pub fn into_multi(self) -> Result<Rx, Rx> {
        match self {
            Rx::BU(r) => Ok(Rx::B(r.into_multi())),
            Rx::MU(r) => Ok(Rx::M(r.into_multi())),
            Rx::BFU(r) => Ok(Rx::BF(r.into_multi())),
            Rx::MFU(r) => Ok(Rx::MF(r.into_multi())),
            other => Err(other),
        }
    }

    pub fn transform(self) -> Result<Rx, Rx> {
        match self {
            Rx::BFU(r) => Ok(Rx::BFU(r.transform_operation(vf()))),
            Rx::MFU(r) => Ok(Rx::MFU(r.transform_operation(vf()))),
            other => Err(other),
        }
    }

    /// unsubscribe; None for the handle type whose unsubscribe returns ()
    pub fn unsubscribe(self) -> Option<bool> {
        match self {
            Rx::B(r) => Some(r.unsubscribe()),
            Rx::BU(r) => {
                r.unsubscribe();
                None
            }
            Rx::M(r) => Some(r.unsubscribe()),
            Rx::MU(r) => Some(r.unsubscribe()),
            Rx::BF(r) => Some(r.unsubscribe()),
            Rx::BFU(r) => Some(r.unsubscribe()),
            Rx::MF(r) => Some(r.unsubscribe()),
            Rx::MFU(r) => Some(r.unsubscribe()),
        }
    }
}
