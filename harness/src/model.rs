//! The sequential reference model: one append-only log, one cursor per stream, a window of N,
//! a sender count.

use crate::handles::{RecvOut, SendOut};
use crate::ops::{Call, CallKind, Res};
use std::collections::BTreeMap;

#[derive(Clone, Debug)]
pub struct MStream {
    pub pos: usize,
    pub handles: usize,
}

#[derive(Clone, Debug)]
pub struct Model {
    pub n: usize,
    pub log: Vec<u64>,
    pub senders: usize,
    pub streams: BTreeMap<u32, MStream>,
    pub wrapped: bool,
}

impl Model {
    pub fn new(n: usize) -> Model {
        let mut streams = BTreeMap::new();
        streams.insert(0u32, MStream { pos: 0, handles: 1 });
        Model {
            n,
            log: Vec::new(),
            senders: 1,
            streams,
            wrapped: false,
        }
    }

    pub fn min_pos(&self) -> Option<usize> {
        self.streams.values().map(|s| s.pos).min()
    }

    pub fn is_full(&self) -> bool {
        match self.min_pos() {
            Some(m) => self.log.len() - m >= self.n,
            None => false,
        }
    }

    pub fn can_send(&self) -> bool {
        !self.streams.is_empty() && !self.is_full()
    }

    pub fn available(&self, stream: u32) -> usize {
        self.streams
            .get(&stream)
            .map(|s| self.log.len() - s.pos)
            .unwrap_or(0)
    }

    /// what a non-blocking receive on `stream` returns now
    pub fn peek_recv(&self, stream: u32) -> RecvOutM {
        match self.streams.get(&stream) {
            Some(s) if s.pos < self.log.len() => RecvOutM::Val(self.log[s.pos]),
            Some(_) if self.senders == 0 => RecvOutM::End,
            Some(_) => RecvOutM::Empty,
            None => RecvOutM::End,
        }
    }

    /// would a blocking receive on `stream` return (value or end) without help from another thread?
    pub fn recv_would_return(&self, stream: u32) -> bool {
        !matches!(self.peek_recv(stream), RecvOutM::Empty)
    }

    fn expect_recv(&mut self, c: &Call, got: &RecvOut, none_is_stop: bool, blocking: bool) -> Result<(), String> {
        let exp = self.peek_recv(c.stream);
        match (exp, got) {
            (RecvOutM::Val(id), RecvOut::Val(s)) if s.id == id => {
                self.streams.get_mut(&c.stream).unwrap().pos += 1;
                Ok(())
            }
            (RecvOutM::Empty, RecvOut::Empty) if !blocking => Ok(()),
            (RecvOutM::End, RecvOut::End) => Ok(()),
            // a non-blocking iterator stops with None on both Empty and End
            (RecvOutM::Empty, RecvOut::End) if none_is_stop => Ok(()),
            (RecvOutM::End, RecvOut::Empty) if none_is_stop => Ok(()),
            (e, g) => Err(format!("model expects {:?}, queue returned {:?}", e, g)),
        }
    }

    /// Checks the result of a call against the model's prediction and applies its effect.
    pub fn on_call(&mut self, c: &Call) -> Result<(), String> {
        match (&c.kind, &c.res) {
            (CallKind::TrySend, Res::Send(out, id)) | (CallKind::StartSend, Res::Send(out, id)) => {
                let fut = c.kind == CallKind::StartSend;
                if self.streams.is_empty() {
                    match out {
                        SendOut::Disc(s) if !fut && s.id == *id => Ok(()),
                        SendOut::Err(s) if fut && s.id == *id => Ok(()),
                        o => Err(format!(
                            "no receiver left: model expects {} with the value handed back, queue returned {:?}",
                            if fut { "Err(SendError)" } else { "Disconnected" },
                            o
                        )),
                    }
                } else if self.is_full() {
                    match out {
                        SendOut::Full(s) if !fut && s.id == *id => Ok(()),
                        SendOut::NotReady(s) if fut && s.id == *id => Ok(()),
                        o => Err(format!("queue full: model expects the value handed back as Full/NotReady, queue returned {:?}", o)),
                    }
                } else {
                    match out {
                        SendOut::Ok => {
                            self.log.push(*id);
                            if self.log.len() > self.n {
                                self.wrapped = true;
                            }
                            Ok(())
                        }
                        o => Err(format!("model expects the send to be accepted, queue returned {:?}", o)),
                    }
                }
            }
            (CallKind::PollComplete, Res::Bool(Some(true))) => Ok(()),
            (CallKind::PollComplete, r) => Err(format!("poll_complete returned {:?}", r)),
            (CallKind::CloneTx, _) => {
                self.senders += 1;
                Ok(())
            }
            (CallKind::DropTx, _) | (CallKind::UnsubTx, _) => {
                self.senders -= 1;
                Ok(())
            }
            (CallKind::TryRecv, Res::Recv(g))
            | (CallKind::TryView, Res::Recv(g))
            | (CallKind::Poll, Res::Recv(g)) => self.expect_recv(c, g, false, false),
            (CallKind::Recv, Res::Recv(g)) | (CallKind::RecvView, Res::Recv(g)) => {
                self.expect_recv(c, g, false, true)
            }
            (CallKind::TryIterNext, Res::Recv(g)) => self.expect_recv(c, g, true, false),
            (CallKind::IterNext, Res::Recv(g)) => self.expect_recv(c, g, false, true),
            (CallKind::AddStream, Res::NewHandle { stream, .. }) => {
                let pos = match self.streams.get(&c.stream) {
                    Some(s) => s.pos,
                    None => return Err("add_stream on unknown stream".into()),
                };
                self.streams.insert(*stream, MStream { pos, handles: 1 });
                Ok(())
            }
            (CallKind::CloneRx, _) => {
                self.streams.get_mut(&c.stream).unwrap().handles += 1;
                Ok(())
            }
            (CallKind::DropRx, _) => {
                self.remove_handle(c.stream);
                Ok(())
            }
            (CallKind::UnsubRx, Res::Bool(b)) => {
                let last = self.streams.get(&c.stream).map(|s| s.handles == 1).unwrap_or(false);
                self.remove_handle(c.stream);
                match b {
                    Some(v) if *v != last => Err(format!(
                        "unsubscribe returned {} but the handle was{} the last one on its stream",
                        v,
                        if last { "" } else { " not" }
                    )),
                    _ => Ok(()),
                }
            }
            (CallKind::IntoSingle, Res::Converted(ok)) => {
                let single = self.streams.get(&c.stream).map(|s| s.handles == 1).unwrap_or(false);
                if *ok != single {
                    Err(format!(
                        "into_single {} although the stream has {} handle(s)",
                        if *ok { "succeeded" } else { "failed" },
                        self.streams.get(&c.stream).map(|s| s.handles).unwrap_or(0)
                    ))
                } else {
                    Ok(())
                }
            }
            (CallKind::IntoMulti, _) | (CallKind::Transform, _) => Ok(()),
            (k, r) => Err(format!("unexpected call shape {:?} / {:?}", k, r)),
        }
    }

    fn remove_handle(&mut self, stream: u32) {
        let gone = {
            let s = self.streams.get_mut(&stream).unwrap();
            s.handles -= 1;
            s.handles == 0
        };
        if gone {
            self.streams.remove(&stream);
        }
    }
}

#[derive(Clone, Copy, Debug, PartialEq, Eq)]
pub enum RecvOutM {
    Val(u64),
    Empty,
    End,
}
