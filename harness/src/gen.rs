//! Generators.  Every scenario is built by construction from plain generated numbers (so that
//! shrinking the numbers shrinks the scenario) and is interpretable in every state: an operation
//! whose target does not exist is skipped and counted.

use crate::handles::{Flavour, QCfg, WaitKind};
use crate::ops::{DrainHow, ExecOpts, Op, Prog, Scenario};
use crate::rt::{Policy, Schedule, MAX_THREADS};
use proptest::collection::vec;
use proptest::prelude::*;

/// selector that `ops::pick` maps to index `idx` in a table of `len` entries
pub fn sel(idx: usize, len: usize) -> u16 {
    debug_assert!(idx < len);
    let s = (idx * 65536 + len - 1) / len;
    debug_assert!((s * len) >> 16 == idx);
    s as u16
}

/// weighted union that ignores zero-weight options
pub fn wunion<T: std::fmt::Debug + 'static>(v: Vec<(u32, BoxedStrategy<T>)>) -> proptest::strategy::Union<BoxedStrategy<T>> {
    proptest::strategy::Union::new_weighted(v.into_iter().filter(|(w, _)| *w > 0).collect::<Vec<_>>())
}

// ---- configuration ------------------------------------------------------------------------

pub fn cap_small() -> BoxedStrategy<u8> {
    prop_oneof![
        6 => Just(1u8),
        6 => Just(2u8),
        2 => Just(0u8),
        3 => Just(3u8),
        4 => Just(4u8),
        1 => 5u8..=9u8,
    ]
    .boxed()
}

pub fn cap_any() -> BoxedStrategy<u8> {
    (0u8..=9u8).boxed()
}

/// for sequential histories, which are long enough to fill and wrap larger rings (16..128 slots)
pub fn cap_wide() -> BoxedStrategy<u8> {
    prop_oneof![
        6 => 0u8..=9u8,
        1 => 10u8..=70u8,
    ]
    .boxed()
}

pub fn wait_any() -> BoxedStrategy<WaitKind> {
    prop_oneof![
        3 => Just(WaitKind::Busy),
        2 => Just(WaitKind::Yield(0, 0)),
        2 => Just(WaitKind::Yield(1, 1)),
        3 => Just(WaitKind::Block(0, 0)),
        2 => Just(WaitKind::Block(1, 1)),
        1 => Just(WaitKind::Block(2, 0)),
        1 => Just(WaitKind::Yield(2, 0)),
        1 => Just(WaitKind::YieldDefault),
        1 => Just(WaitKind::BlockDefault),
    ]
    .boxed()
}

pub fn wait_no_notify() -> BoxedStrategy<WaitKind> {
    prop_oneof![
        3 => Just(WaitKind::Busy),
        2 => Just(WaitKind::Yield(0, 1)),
        2 => Just(WaitKind::Yield(1, 1)),
        1 => Just(WaitKind::Yield(2, 2)),
    ]
    .boxed()
}

pub fn fut_spins() -> BoxedStrategy<Option<(u8, u8)>> {
    prop_oneof![
        4 => Just(Some((0u8, 0u8))),
        3 => Just(Some((1u8, 1u8))),
        1 => Just(Some((2u8, 0u8))),
        1 => Just(None),
    ]
    .boxed()
}

#[derive(Clone, Copy, Debug, PartialEq, Eq)]
pub enum FutMode {
    Never,
    Always,
    Mixed,
}

pub fn qcfg(flavours: &'static [Flavour], fut: FutMode, cap: BoxedStrategy<u8>, wait: BoxedStrategy<WaitKind>) -> BoxedStrategy<QCfg> {
    let futs = match fut {
        FutMode::Never => Just(false).boxed(),
        FutMode::Always => Just(true).boxed(),
        FutMode::Mixed => prop_oneof![2 => Just(false), 1 => Just(true)].boxed(),
    };
    (0..flavours.len(), futs, cap, wait, fut_spins())
        .prop_map(move |(f, futures, cap, wait, fs)| {
            let flavour = flavours[f];
            QCfg {
                flavour,
                futures,
                cap,
                wait,
                // the mpmc futures queue only has the default constructor
                fut_spins: if flavour == Flavour::Mpmc { None } else { fs },
            }
        })
        .boxed()
}

pub const BOTH: &[Flavour] = &[Flavour::Broadcast, Flavour::Mpmc];
pub const BCAST: &[Flavour] = &[Flavour::Broadcast];
pub const MPMC: &[Flavour] = &[Flavour::Mpmc];

// ---- schedules ----------------------------------------------------------------------------

pub fn schedule(max_len: usize) -> BoxedStrategy<Schedule> {
    let policy = prop_oneof![
        3 => Just(Policy::Walk { stay: 127, target: None, stay_target: 127 }),
        3 => Just(Policy::Walk { stay: 223, target: None, stay_target: 223 }),
        2 => Just(Policy::Walk { stay: 247, target: None, stay_target: 247 }),
        4 => (0u8..28u8).prop_map(|t| Policy::Walk { stay: 247, target: Some(t), stay_target: 100 }),
        2 => Just(Policy::Walk { stay: 239, target: Some(crate::rt::TARGET_PAYLOAD), stay_target: 40 }),
        6 => (any::<[u8; MAX_THREADS]>(), vec(0u32..600u32, 1..=4)).prop_map(|(prio, change)| Policy::Pct { prio: prio.to_vec(), change }),
        // a thread held in the middle of a handle-population call (2) or of a send/receive (1)
        // while everybody else runs on
        2 => (1u8..=8, 0..POPULATION_CALLS.len(), 0u8..48, prop_oneof![Just(223u8), Just(247u8)], hold_len())
            .prop_map(|(victim, k, nth, stay, hold)| Policy::StallCall { victim, kind: POPULATION_CALLS[k], nth, stay, hold }),
        1 => (1u8..=8, 0..TRAFFIC_CALLS.len(), 0u8..24, prop_oneof![Just(223u8), Just(247u8)], hold_len())
            .prop_map(|(victim, k, nth, stay, hold)| Policy::StallCall { victim, kind: TRAFFIC_CALLS[k], nth, stay, hold }),
    ];
    (policy, vec(any::<u8>(), 0..max_len))
        .prop_map(|(policy, bytes)| Schedule { policy, bytes })
        .boxed()
}

/// random walk in which one thread is suspended at one of its first dereference points until
/// nobody else can make progress (threads are numbered in spawn order; 0 is the controller)
pub fn stall_schedule(max_len: usize) -> BoxedStrategy<Schedule> {
    (
        prop_oneof![4 => Just(1u8), 3 => Just(2u8), 3 => 3u8..=8u8],
        0u8..8,
        prop_oneof![Just(223u8), Just(247u8)],
        vec(any::<u8>(), 0..max_len),
    )
        .prop_map(|(victim, nth, stay, bytes)| Schedule { policy: Policy::Stall { victim, nth, stay }, bytes })
        .boxed()
}

/// random walk in which one thread is suspended at one of the first scheduling points of its
/// first call of one kind (`kinds`: CallKind codes to choose from) until nobody else can make
/// progress, and then finishes the call on what it had read before
pub fn stall_call_schedule(max_len: usize, kinds: &'static [u8]) -> BoxedStrategy<Schedule> {
    (
        prop_oneof![2 => Just(1u8), 2 => Just(2u8), 3 => Just(3u8), 3 => Just(4u8), 2 => 5u8..=8u8],
        0..kinds.len(),
        // the windows between "read" and "use" are mostly among the first points of a call
        prop_oneof![3 => 0u8..10, 1 => 10u8..48],
        prop_oneof![Just(223u8), Just(247u8)],
        vec(any::<u8>(), 0..max_len),
        hold_len(),
    )
        .prop_map(move |(victim, k, nth, stay, bytes, hold)| Schedule { policy: Policy::StallCall { victim, kind: kinds[k], nth, stay, hold }, bytes })
        .boxed()
}

/// how long a stalled thread is held: until nobody else can make progress (0) or for 16..1600 points
/// of the others
fn hold_len() -> BoxedStrategy<u8> {
    prop_oneof![2 => Just(0u8), 3 => 1u8..=12, 2 => 12u8..=100].boxed()
}

/// CallKind codes: AddStream, CloneRx, DropRx, UnsubRx, IntoSingle, IntoMulti, CloneTx, DropTx
pub const POPULATION_CALLS: &[u8] = &[14, 14, 14, 15, 16, 16, 17, 18, 19, 4, 5];
/// TrySend, TryRecv, Recv, TryView, RecvView, Poll, StartSend
pub const TRAFFIC_CALLS: &[u8] = &[1, 7, 8, 9, 10, 13, 2];

// ---- sequential histories (E2) ------------------------------------------------------------

#[derive(Clone, Copy, Debug, PartialEq, Eq)]
pub struct SeqAlphabet {
    pub futures_ops: bool,
    pub add_stream: bool,
    pub teardown: bool,
}

pub fn seq_op(a: SeqAlphabet) -> BoxedStrategy<Op> {
    let s = || any::<u16>();
    let mut v: Vec<(u32, BoxedStrategy<Op>)> = vec![
        (12, s().prop_map(|tx| Op::TrySend { tx }).boxed()),
        (8, s().prop_map(|rx| Op::TryRecv { rx }).boxed()),
        (3, s().prop_map(|rx| Op::Recv { rx }).boxed()),
        (3, s().prop_map(|rx| Op::TryView { rx }).boxed()),
        (2, s().prop_map(|rx| Op::RecvView { rx }).boxed()),
        (2, (s(), 0u8..4, any::<u8>()).prop_map(|(rx, max, variant)| Op::TryIter { rx, max, variant }).boxed()),
        (1, (s(), 0u8..3, any::<u8>()).prop_map(|(rx, max, variant)| Op::IntoIter { rx, max, variant }).boxed()),
        (2, (s(), s(), 0u8..3, any::<u8>()).prop_map(|(rx, tx, max, variant)| Op::TryIterAcross { rx, tx, max, variant, clone_to: 0 }).boxed()),
        (2, s().prop_map(|tx| Op::CloneTx { tx }).boxed()),
        (2, s().prop_map(|tx| Op::DropTx { tx }).boxed()),
        (1, s().prop_map(|tx| Op::UnsubTx { tx }).boxed()),
        (3, s().prop_map(|rx| Op::CloneRx { rx }).boxed()),
        (2, s().prop_map(|rx| Op::DropRx { rx }).boxed()),
        (2, s().prop_map(|rx| Op::UnsubRx { rx }).boxed()),
        (3, s().prop_map(|rx| Op::IntoSingle { rx }).boxed()),
        (2, s().prop_map(|rx| Op::IntoMulti { rx }).boxed()),
    ];
    if a.add_stream {
        v.push((4, s().prop_map(|rx| Op::AddStream { rx }).boxed()));
    }
    // a burst of handle or stream churn: 6..30 rounds of clone-and-drop (or add-and-remove) in a
    // row retire enough internal objects to open a reclamation epoch and raise the epoch signal,
    // a state in which senders and receivers take different paths (round-5 seed C05-5)
    let round = if a.add_stream {
        prop_oneof![
            (s(), any::<bool>()).prop_map(|(rx, unsub)| Op::WithCloneRx { rx, unsub }),
            s().prop_map(|tx| Op::WithCloneTx { tx, sends: 0 }),
            (s(), any::<bool>()).prop_map(|(rx, unsub)| Op::WithNewStream { rx, unsub }),
        ]
        .boxed()
    } else {
        prop_oneof![
            (s(), any::<bool>()).prop_map(|(rx, unsub)| Op::WithCloneRx { rx, unsub }),
            s().prop_map(|tx| Op::WithCloneTx { tx, sends: 0 }),
        ]
        .boxed()
    };
    v.push((1, (6u32..=30, round).prop_map(|(times, r)| Op::Repeat { times, body: vec![r], sample_after: vec![] }).boxed()));
    if a.futures_ops {
        v.push((8, (s(), any::<bool>()).prop_map(|(tx, by_ref)| Op::StartSend { tx, by_ref }).boxed()));
        v.push((8, (s(), any::<bool>()).prop_map(|(rx, by_ref)| Op::Poll { rx, by_ref }).boxed()));
        v.push((1, s().prop_map(|tx| Op::PollComplete { tx }).boxed()));
        v.push((1, s().prop_map(|rx| Op::Transform { rx }).boxed()));
    }
    wunion(v).boxed()
}

/// explicit teardown: a generated order of handle drops appended to a history
pub fn teardown_ops() -> BoxedStrategy<Vec<Op>> {
    vec(
        prop_oneof![
            any::<u16>().prop_map(|tx| Op::DropTx { tx }),
            any::<u16>().prop_map(|rx| Op::DropRx { rx }),
            any::<u16>().prop_map(|rx| Op::UnsubRx { rx }),
        ],
        0..14,
    )
    .boxed()
}

pub fn seq_scenario(q: BoxedStrategy<QCfg>, max_len: usize, add_stream_on_mpmc: bool, opts: ExecOpts) -> BoxedStrategy<Scenario> {
    // no flat_map: the whole alphabet is generated and adapted to the configuration afterwards,
    // so that proptest can shrink the operation vector element by element
    let a = SeqAlphabet { futures_ops: true, add_stream: true, teardown: true };
    // length distribution: many short histories, some long ones
    let keep = prop_oneof![6 => 1usize..24, 3 => 24usize..80, 1 => 80usize..max_len.max(81)];
    (q, vec(seq_op(a), 1..=max_len.max(2)), keep, teardown_ops())
        .prop_map(move |(q, mut ops, keep, td)| {
            ops.truncate(keep.max(1));
            for o in ops.iter_mut() {
                match o {
                    // a second stream on a move-out queue is defect D7: excluded by construction
                    // unless asked for
                    Op::AddStream { rx } if q.flavour == Flavour::Mpmc && !add_stream_on_mpmc => {
                        *o = Op::TryRecv { rx: *rx }
                    }
                    _ => {}
                }
            }
            ops.extend(td);
            Scenario {
                q,
                progs: vec![Prog { ops, ret: false }],
                sched: Schedule::none(),
                opts: opts.clone(),
            }
        })
        .boxed()
}

/// Sequential "crowd" histories for C14: many distinct tasks parked at the same time (10..13 sink
/// tasks on a full queue, or stream tasks on an empty one), then the one event that must wake all of
/// them.  `FutWait::notify` treats a parked list longer than its inline buffer differently.
pub fn crowd_scenario(opts: ExecOpts, hangup_only: bool) -> BoxedStrategy<Scenario> {
    let q = qcfg(BOTH, FutMode::Always, prop_oneof![Just(1u8), Just(2u8), Just(4u8)].boxed(), wait_any());
    // storm: one of the parked stream tasks is polled again and again (30..45 times) without a send
    // in between - every poll registers the task once more - before the event that must still
    // wake the task that polled only once (round-7 seed C07-9: a bounded park list evicting its
    // oldest entry)
    (q, 6usize..=13, any::<bool>(), 0u8..5, any::<bool>(), vec(seq_op(SeqAlphabet { futures_ops: true, add_stream: false, teardown: false }), 0..6), prop_oneof![3 => Just(0u8), 1 => 30u8..=45])
        .prop_map(move |(q, k, sink_side, event, lagging, tail, storm)| {
            // C07 only looks at the last sender going away while stream tasks are parked
            let (sink_side, event) = if hangup_only { (false, 2 + event % 2) } else { (sink_side, event) };
            let n = q.n();
            let bcast = q.flavour == Flavour::Broadcast;
            let mut ops: Vec<Op> = Vec::new();
            if sink_side {
                // receivers: [initial] (+ lagging stream on broadcast)
                let lag = lagging && bcast;
                if lag {
                    ops.push(Op::AddStream { rx: 0 });
                }
                for _ in 0..n {
                    ops.push(Op::TrySend { tx: 0 });
                }
                if lag {
                    // only the lagging stream keeps the queue full
                    for _ in 0..n {
                        ops.push(Op::TryRecv { rx: sel(0, 2) });
                    }
                }
                for _ in 1..k {
                    ops.push(Op::CloneTx { tx: 0 });
                }
                for i in 0..k {
                    ops.push(Op::StartSend { tx: sel(i, k), by_ref: i % 2 == 0 });
                }
                let nrx = if lag { 2 } else { 1 };
                let last = sel(nrx - 1, nrx);
                ops.push(match event {
                    0 => Op::TryRecv { rx: last },
                    1 => Op::DropRx { rx: last },
                    2 => Op::UnsubRx { rx: last },
                    3 => Op::Poll { rx: last, by_ref: false },
                    _ => Op::Recv { rx: last },
                });
            } else {
                // k stream tasks on an empty queue: shared handles and (broadcast) separate streams
                for i in 1..k {
                    if bcast && i % 2 == 0 {
                        ops.push(Op::AddStream { rx: 0 });
                    } else {
                        ops.push(Op::CloneRx { rx: 0 });
                    }
                }
                for i in 0..k {
                    ops.push(Op::Poll { rx: sel(i, k), by_ref: i % 2 == 0 });
                }
                for _ in 0..storm {
                    ops.push(Op::Poll { rx: sel(1, k), by_ref: true });
                }
                ops.push(match event {
                    0 => Op::TrySend { tx: 0 },
                    1 => Op::StartSend { tx: 0, by_ref: false },
                    2 => Op::DropTx { tx: 0 },
                    3 => Op::UnsubTx { tx: 0 },
                    _ => Op::Send { tx: 0, max: 1 },
                });
            }
            ops.extend(tail);
            Scenario { q, progs: vec![Prog { ops, ret: false }], sched: Schedule::none(), opts: opts.clone() }
        })
        .boxed()
}

// ---- concurrent traffic scenarios (E1) ----------------------------------------------------

#[derive(Clone, Debug)]
pub enum POp {
    Send,
    TrySend,
    SendK(u8),
    /// clone the sender, send one value through the clone, drop the clone
    CloneSendDrop,
    /// `k` rounds of cloning and dropping a sender: retires enough tokens to open a reclamation
    /// epoch (which stays open while a consumer sleeps), so that the next send takes the path that
    /// handles the epoch signal
    Burst(u8),
    Yield,
}

#[derive(Clone, Debug)]
pub enum COp {
    TryRecv,
    Recv,
    TryView,
    RecvView,
    TryIter(u8),
    Poll,
    Next,
    Yield,
    /// clone this receiver, receive once through the clone, drop the clone
    CloneRecvDrop,
    IntoSingle,
    IntoMulti,
}

#[derive(Clone, Debug)]
pub enum Fin {
    Drain(DrainHow, u8),
    Leave,
}

#[derive(Clone, Debug)]
pub struct ProducerPlan {
    pub ops: Vec<POp>,
    /// wait until the k-th latest accepted value has been delivered before dropping the sender
    pub gate: Option<u8>,
    pub sink: bool,
}

#[derive(Clone, Debug)]
pub struct ConsumerPlan {
    pub ops: Vec<COp>,
    pub fin: Fin,
    pub single: bool,
    /// position among `ops` at which the consumer calls add_stream and hands the new stream to a
    /// child thread that drains it
    pub fork: Option<(u8, DrainHow)>,
    /// the fork is not an added stream but a clone made while a non-blocking iterator of this
    /// receiver is alive: the old iterator and the new sibling then receive concurrently
    pub fork_iter: bool,
}

#[derive(Clone, Debug)]
pub struct TrafficPlan {
    pub q: QCfg,
    pub prefill: u8,
    pub producers: Vec<ProducerPlan>,
    /// consumers per stream; stream 0 is the initial one
    pub streams: Vec<Vec<ConsumerPlan>>,
    pub sched: Schedule,
    pub weak_cas: bool,
    pub mpmc_uni_fork: bool,
}

#[derive(Clone, Debug)]
pub struct TrafficParams {
    pub max_producers: usize,
    pub max_values: usize,
    pub max_streams: usize,
    pub max_consumers: usize,
    pub w_send: u32,
    pub w_try: u32,
    pub w_sendk: u32,
    pub w_clone_tx: u32,
    pub w_clone_rx: u32,
    pub w_convert: u32,
    pub leave: u32,
    pub gates: bool,
    pub sink_tasks: bool,
    pub blocking_only: bool,
    /// out of 8: share of consumers that add a stream during traffic
    pub fork: u32,
    /// weight of a producer-side burst of sender clone+drop rounds
    pub w_burst: u32,
    /// weight of a non-blocking iteration among the consumer operations
    pub w_try_iter: u32,
    /// a futures single-consumer receiver of a move-out queue may call add_stream_with during
    /// traffic (the API of known finding D7; only where the oracle is indifferent to D7 itself)
    pub mpmc_uni_fork: bool,
    /// consumers only use non-blocking entry points (C18 freeze sweep: a consumer must not sit in
    /// a legitimately blocking receive when its non-blocking operations are what is examined)
    pub try_only: bool,
}

impl Default for TrafficParams {
    fn default() -> Self {
        TrafficParams {
            max_producers: 3,
            max_values: 8,
            max_streams: 3,
            max_consumers: 3,
            w_send: 6,
            w_try: 3,
            w_sendk: 2,
            w_clone_tx: 0,
            w_clone_rx: 0,
            w_convert: 0,
            leave: 1,
            gates: false,
            sink_tasks: false,
            blocking_only: false,
            fork: 0,
            w_burst: 0,
            w_try_iter: 1,
            mpmc_uni_fork: false,
            try_only: false,
        }
    }
}

fn producer_plan(p: TrafficParams) -> BoxedStrategy<ProducerPlan> {
    let op = wunion(vec![
        (p.w_send.max(1), Just(POp::Send).boxed()),
        (p.w_try, Just(POp::TrySend).boxed()),
        (p.w_sendk, (1u8..4).prop_map(POp::SendK).boxed()),
        (p.w_clone_tx, Just(POp::CloneSendDrop).boxed()),
        (p.w_burst, (8u8..=26).prop_map(POp::Burst).boxed()),
        (1, Just(POp::Yield).boxed()),
    ]);
    let gate = if p.gates {
        prop_oneof![1 => Just(None), 2 => (0u8..2).prop_map(Some)].boxed()
    } else {
        Just(None).boxed()
    };
    let sink = if p.sink_tasks { any::<bool>().boxed() } else { Just(false).boxed() };
    (vec(op, 1..=p.max_values), gate, sink)
        .prop_map(|(ops, gate, sink)| ProducerPlan { ops, gate, sink })
        .boxed()
}

fn consumer_plan(p: TrafficParams, may_leave: bool) -> BoxedStrategy<ConsumerPlan> {
    let op = if p.blocking_only {
        wunion(vec![
            (4, Just(COp::Recv).boxed()),
            (2, Just(COp::RecvView).boxed()),
            (1, Just(COp::Yield).boxed()),
        ])
    } else if p.try_only {
        wunion(vec![
            (4, Just(COp::TryRecv).boxed()),
            (2, Just(COp::TryView).boxed()),
            (p.w_try_iter.max(1), (0u8..3).prop_map(COp::TryIter).boxed()),
            (1, Just(COp::Yield).boxed()),
            (p.w_clone_rx, Just(COp::CloneRecvDrop).boxed()),
            (p.w_convert, Just(COp::IntoSingle).boxed()),
            (p.w_convert, Just(COp::IntoMulti).boxed()),
        ])
    } else {
        wunion(vec![
            (4, Just(COp::TryRecv).boxed()),
            (3, Just(COp::Recv).boxed()),
            (2, Just(COp::TryView).boxed()),
            (2, Just(COp::RecvView).boxed()),
            (p.w_try_iter.max(1), (0u8..3).prop_map(COp::TryIter).boxed()),
            (2, Just(COp::Poll).boxed()),
            (2, Just(COp::Next).boxed()),
            (1, Just(COp::Yield).boxed()),
            (p.w_clone_rx, Just(COp::CloneRecvDrop).boxed()),
            (p.w_convert, Just(COp::IntoSingle).boxed()),
            (p.w_convert, Just(COp::IntoMulti).boxed()),
        ])
    };
    let drain = if p.blocking_only {
        prop_oneof![
            3 => Just(DrainHow::Blocking),
            2 => Just(DrainHow::View),
            1 => Just(DrainHow::Iter),
        ]
        .boxed()
    } else if p.try_only {
        Just(DrainHow::Try).boxed()
    } else {
        prop_oneof![
            3 => Just(DrainHow::Try),
            3 => Just(DrainHow::Blocking),
            2 => Just(DrainHow::View),
            2 => Just(DrainHow::Poll),
            1 => Just(DrainHow::Iter),
        ]
        .boxed()
    };
    let fin = if may_leave && p.leave > 0 {
        prop_oneof![
            8 => (drain.clone(), 0u8..3).prop_map(|(h, e)| Fin::Drain(h, e)),
            p.leave => Just(Fin::Leave),
        ]
        .boxed()
    } else {
        (drain.clone(), 0u8..3).prop_map(|(h, e)| Fin::Drain(h, e)).boxed()
    };
    let fork = if p.fork > 0 {
        prop_oneof![
            (8 - p.fork.min(7)) => Just(None),
            p.fork.min(7) => (0u8..6, drain.clone()).prop_map(Some),
        ]
        .boxed()
    } else {
        Just(None).boxed()
    };
    (vec(op, 0..6), fin, any::<bool>(), fork, prop_oneof![3 => Just(false), 1 => Just(true)])
        .prop_map(|(ops, fin, single, fork, fork_iter)| ConsumerPlan { ops, fin, single, fork, fork_iter })
        .boxed()
}

pub fn traffic_plan(q: BoxedStrategy<QCfg>, p: TrafficParams, sched_len: usize) -> BoxedStrategy<TrafficPlan> {
    q.prop_flat_map(move |q| {
        let max_streams = if q.flavour == Flavour::Mpmc { 1 } else { p.max_streams };
        let p2 = p.clone();
        let p3 = p.clone();
        let uni_fork = p.mpmc_uni_fork;
        let streams = vec(
            (consumer_plan(p2.clone(), false), vec(consumer_plan(p2.clone(), true), 0..p2.max_consumers))
                .prop_map(|(first, mut rest)| {
                    rest.insert(0, first);
                    rest
                }),
            1..=max_streams,
        );
        (
            Just(q),
            0u8..=(q.n() as u8),
            vec(producer_plan(p3), 1..=p.max_producers),
            streams,
            schedule(sched_len),
            prop_oneof![7 => Just(false), 1 => Just(true)],
        )
            .prop_map(move |(q, prefill, producers, mut streams, sched, weak_cas)| {
                // thread budget: main + producers + consumers (+ one child per forking consumer)
                // <= MAX_THREADS
                let forks = streams.iter().flat_map(|s| s.iter()).filter(|c| c.fork.is_some()).count().min(2);
                let mut budget = MAX_THREADS - 1 - producers.len() - forks;
                for s in streams.iter_mut() {
                    let keep = s.len().min(budget.max(1));
                    s.truncate(keep.max(1));
                    budget = budget.saturating_sub(s.len());
                }
                let mut total = forks;
                streams.retain(|s| {
                    total += s.len();
                    total + producers.len() + 1 <= MAX_THREADS
                });
                TrafficPlan { q, prefill, producers, streams, sched, weak_cas, mpmc_uni_fork: uni_fork }
            })
    })
    .boxed()
}

/// Builds the scenario of a traffic plan.
///
/// Layout: program 0 is the controller (prelude, spawns, JoinAll); programs 1..=P are producers;
/// the following programs are consumers, stream by stream.  The controller keeps no handle while
/// the others run, every producer drops its sender at the end, and every stream's first consumer
/// drains to the end, so a correct queue terminates under every fair schedule.
pub fn build_traffic(plan: &TrafficPlan, opts: &ExecOpts) -> Scenario {
    let q = plan.q;
    let np = plan.producers.len();
    let nstreams = plan.streams.len();
    let mut main: Vec<Op> = Vec::new();
    // prelude: prefill while the queue has only the initial stream
    for _ in 0..plan.prefill {
        main.push(Op::TrySend { tx: 0 });
    }
    // receiver table of the controller: [stream0, stream1, ...] then clones appended
    let mut rx_table: Vec<usize> = vec![0]; // stream of each table entry
    for s in 1..nstreams {
        main.push(Op::AddStream { rx: sel(0, rx_table.len()) });
        rx_table.push(s);
    }
    for (s, cons) in plan.streams.iter().enumerate() {
        for _ in 1..cons.len() {
            let idx = rx_table.iter().position(|x| *x == s).unwrap();
            main.push(Op::CloneRx { rx: sel(idx, rx_table.len()) });
            rx_table.push(s);
        }
    }
    for _ in 1..np {
        main.push(Op::CloneTx { tx: 0 });
    }
    let mut progs: Vec<Prog> = vec![Prog { ops: vec![], ret: false }];
    // producers
    for pp in &plan.producers {
        let prog_no = progs.len() as u8;
        main.push(Op::Spawn { prog: prog_no, tx: vec![0], rx: vec![] });
        let mut ops = Vec::new();
        for o in &pp.ops {
            match o {
                POp::Send => ops.push(if pp.sink && q.futures { Op::SinkSend { tx: 0 } } else { Op::Send { tx: 0, max: 0 } }),
                POp::TrySend => ops.push(if pp.sink && q.futures { Op::StartSend { tx: 0, by_ref: true } } else { Op::TrySend { tx: 0 } }),
                POp::SendK(k) => ops.push(Op::Send { tx: 0, max: *k }),
                POp::CloneSendDrop => ops.push(Op::WithCloneTx { tx: 0, sends: 1 }),
                POp::Burst(k) => ops.push(Op::Repeat { times: *k as u32, body: vec![Op::WithCloneTx { tx: 0, sends: 0 }], sample_after: vec![] }),
                POp::Yield => ops.push(Op::Yield),
            }
        }
        if let Some(k) = pp.gate {
            ops.push(Op::WaitDelivered { seq: k });
        }
        progs.push(Prog { ops, ret: false });
    }
    // consumers: hand each its receiver; table entries are removed as they are handed out
    let consumers_total: usize = plan.streams.iter().map(|s| s.len()).sum();
    let mut forks_left = MAX_THREADS.saturating_sub(1 + np + consumers_total).min(2);
    let mut fork_children: Vec<(usize, DrainHow)> = Vec::new();
    for (s, cons) in plan.streams.iter().enumerate() {
        for cp in cons {
            let prog_no = progs.len() as u8;
            let idx = rx_table.iter().position(|x| *x == s).unwrap();
            main.push(Op::Spawn { prog: prog_no, tx: vec![], rx: vec![sel(idx, rx_table.len())] });
            rx_table.remove(idx);
            let mut ops = Vec::new();
            // a consumer of a broadcast stream (sole handle or one of several) may add a stream
            // during traffic; at most two such forks per scenario
            let iter_fork = cp.fork_iter && !q.futures;
            // add_stream_with on the single-consumer futures receiver of a move-out queue
            let uni_fork = plan.mpmc_uni_fork && q.flavour == Flavour::Mpmc && q.futures && cons.len() == 1 && !cp.fork_iter;
            let do_fork = (q.flavour == Flavour::Broadcast || iter_fork || uni_fork) && forks_left > 0 && cp.fork.is_some();
            if uni_fork && do_fork {
                ops.push(Op::IntoSingle { rx: 0 });
            }
            let fork_ops = |ops: &mut Vec<Op>| {
                if iter_fork {
                    let v = cp.fork.map(|f| f.0).unwrap_or(0);
                    ops.push(Op::TryIterAcross { rx: 0, tx: 0, max: v % 2, variant: v, clone_to: 255 });
                } else {
                    ops.push(Op::AddStream { rx: 0 });
                    ops.push(Op::Spawn { prog: 0, tx: vec![], rx: vec![sel(1, 2)] });
                }
            };
            let fork_at = cp.fork.map(|f| (f.0 as usize).min(cp.ops.len())).unwrap_or(0);
            if cp.single && !do_fork {
                ops.push(Op::IntoSingle { rx: 0 });
            }
            for (oi, o) in cp.ops.iter().enumerate() {
                if do_fork && oi == fork_at {
                    fork_children.push((progs.len(), cp.fork.unwrap().1));
                    fork_ops(&mut ops);
                }
                match o {
                    COp::TryRecv => ops.push(Op::TryRecv { rx: 0 }),
                    COp::Recv => ops.push(Op::RecvN { rx: 0, k: 1, view: false }),
                    COp::TryView => ops.push(Op::TryView { rx: 0 }),
                    COp::RecvView => ops.push(Op::RecvN { rx: 0, k: 1, view: true }),
                    COp::TryIter(k) => ops.push(Op::TryIter { rx: 0, max: *k, variant: *k }),
                    COp::Poll => ops.push(Op::Poll { rx: 0, by_ref: true }),
                    COp::Next => ops.push(Op::StreamNext { rx: 0 }),
                    COp::Yield => ops.push(Op::Yield),
                    COp::CloneRecvDrop => ops.push(Op::WithCloneRx { rx: 0, unsub: false }),
                    COp::IntoSingle => ops.push(Op::IntoSingle { rx: 0 }),
                    COp::IntoMulti => ops.push(Op::IntoMulti { rx: 0 }),
                }
            }
            if do_fork && fork_at >= cp.ops.len() {
                fork_children.push((progs.len(), cp.fork.unwrap().1));
                fork_ops(&mut ops);
            }
            match &cp.fin {
                Fin::Drain(how, extra) => ops.push(Op::Drain { rx: 0, how: *how, extra: *extra }),
                Fin::Leave => {}
            }
            if do_fork {
                forks_left -= 1;
                ops.push(Op::JoinAll);
            }
            progs.push(Prog { ops, ret: false });
        }
    }
    // children of forking consumers: drain the stream they were handed
    for (parent, how) in fork_children {
        let child = progs.len() as u8;
        for o in progs[parent].ops.iter_mut() {
            if let Op::Spawn { prog, .. } = o {
                if *prog == 0 {
                    *prog = child;
                }
            }
            if let Op::TryIterAcross { clone_to, .. } = o {
                if *clone_to == 255 {
                    *clone_to = child;
                }
            }
        }
        progs.push(Prog { ops: vec![Op::Drain { rx: 0, how, extra: 0 }], ret: false });
    }
    main.push(Op::JoinAll);
    progs[0].ops = main;
    let mut o = opts.clone();
    o.weak_cas = plan.weak_cas;
    Scenario { q, progs, sched: plan.sched.clone(), opts: o }
}

pub fn traffic(q: BoxedStrategy<QCfg>, p: TrafficParams, sched_len: usize, opts: ExecOpts) -> BoxedStrategy<Scenario> {
    traffic_plan(q, p, sched_len)
        .prop_map(move |plan| build_traffic(&plan, &opts))
        .boxed()
}


// ---- add_stream scenarios (C10) ------------------------------------------------------------

#[derive(Clone, Debug)]
pub struct AddStreamPlan {
    pub q: QCfg,
    pub prefill: u8,
    pub producers: Vec<u8>,
    pub parent_handles: u8,
    pub pre_recv: u8,
    pub adder_single: bool,
    pub sibling_pre: Vec<u8>,
    pub other_stream: bool,
    pub hows: Vec<DrainHow>,
    pub second_add: bool,
    /// add_stream + drop rounds performed by the witness / other-stream threads before they drain
    pub side_adds: (u8, u8),
    /// every stream but the new one(s) leaves early (the documented "add_stream, then unsubscribe
    /// the parent" usage): nothing the other receivers do can cover up for the new stream
    pub lonely: Option<(u8, bool)>,
    /// on a futures queue the producers are Sink tasks (they park when refused) and the child may
    /// convert a single-consumer new stream with into_multi before draining it (round-7 seeds
    /// C10-9, C10-10: park lists mixed up in the futures conversions)
    pub tasks: (bool, bool),
    pub sched: Schedule,
}

fn drain_how() -> BoxedStrategy<DrainHow> {
    prop_oneof![
        3 => Just(DrainHow::Try),
        3 => Just(DrainHow::Blocking),
        1 => Just(DrainHow::View),
        2 => Just(DrainHow::Poll),
        1 => Just(DrainHow::Iter),
    ]
    .boxed()
}

pub fn addstream_plan() -> BoxedStrategy<AddStreamPlan> {
    let q = qcfg(BCAST, FutMode::Mixed, prop_oneof![4 => Just(1u8), 4 => Just(2u8), 2 => Just(4u8), 1 => Just(3u8)].boxed(), wait_any());
    (
        q,
        0u8..=4,
        vec(1u8..=7, 1..=2),
        // number of handles on the parent stream: with 2-3 the siblings receive while the adder
        // copies the parent's position (the situation of defect D8, repaired in /repo 06c705c)
        prop_oneof![4 => Just(1u8), 2 => Just(2u8), 2 => Just(3u8)],
        0u8..4,
        any::<bool>(),
        vec(0u8..3, 2),
        prop_oneof![3 => Just(false), 1 => Just(true)],
        vec(drain_how(), 5),
        prop_oneof![3 => Just(false), 1 => Just(true)],
        (prop_oneof![2 => Just(0u8), 1 => Just(1u8), 1 => Just(2u8)], prop_oneof![2 => Just(0u8), 1 => Just(1u8), 1 => Just(2u8)]),
        (
            prop_oneof![3 => Just(None), 1 => (0u8..3, any::<bool>()).prop_map(Some)],
            // one case in four: a thread is held at one of the first points of its add_stream call
            // while everybody else runs on (after round-6 seed C01-6)
            prop_oneof![2 => schedule(500), 1 => stall_call_schedule(500, &[14])],
            (any::<bool>(), any::<bool>()),
        ),
    )
        .prop_map(|(q, prefill, producers, parent_handles, pre_recv, adder_single, sibling_pre, other_stream, hows, second_add, side_adds, (lonely, sched, tasks))| AddStreamPlan {
            q,
            prefill: prefill.min(q.n() as u8),
            producers,
            parent_handles,
            pre_recv,
            adder_single,
            sibling_pre,
            other_stream,
            hows,
            second_add,
            side_adds,
            lonely,
            tasks,
            sched,
        })
        .boxed()
}

/// program 0 controller; witness = initial stream (stream 0), drained by its own thread;
/// parent = stream 1; the adder thread calls add_stream on the parent, hands the new stream to a
/// child thread that drains it, and drains the parent itself.
pub fn build_addstream(pl: &AddStreamPlan, opts: &ExecOpts) -> Scenario {
    let q = pl.q;
    let mut main = Vec::new();
    for _ in 0..pl.prefill {
        main.push(Op::TrySend { tx: 0 });
    }
    // how a stream other than the new one(s) finishes
    let finish = |ops: &mut Vec<Op>, how: DrainHow| match pl.lonely {
        None => ops.push(Op::Drain { rx: 0, how, extra: 0 }),
        Some((k, unsub)) => {
            for _ in 0..k {
                ops.push(Op::TryRecv { rx: 0 });
            }
            ops.push(if unsub { Op::UnsubRx { rx: 0 } } else { Op::DropRx { rx: 0 } });
        }
    };
    // table: [W]
    main.push(Op::AddStream { rx: 0 }); // [W, P]
    let mut table: Vec<&str> = vec!["W", "P"];
    for _ in 1..pl.parent_handles {
        main.push(Op::CloneRx { rx: sel(1, table.len()) });
        table.push("P");
    }
    if pl.other_stream {
        main.push(Op::AddStream { rx: 0 });
        table.push("O");
    }
    for _ in 1..pl.producers.len() {
        main.push(Op::CloneTx { tx: 0 });
    }
    let mut progs: Vec<Prog> = vec![Prog { ops: vec![], ret: false }];
    for k in &pl.producers {
        let p = progs.len() as u8;
        main.push(Op::Spawn { prog: p, tx: vec![0], rx: vec![] });
        let sink = pl.tasks.0 && q.futures;
        progs.push(Prog {
            ops: (0..*k).map(|_| if sink { Op::SinkSend { tx: 0 } } else { Op::Send { tx: 0, max: 0 } }).collect(),
            ret: false,
        });
    }
    let take = |table: &mut Vec<&str>, what: &str| -> u16 {
        let idx = table.iter().position(|x| *x == what).unwrap();
        let s = sel(idx, table.len());
        table.remove(idx);
        s
    };
    // witness
    {
        let p = progs.len() as u8;
        let s = take(&mut table, "W");
        main.push(Op::Spawn { prog: p, tx: vec![], rx: vec![s] });
        // the witness may itself add (and immediately drop) streams, racing with the adder's
        // replacement of the stream list
        let mut ops = Vec::new();
        for _ in 0..pl.side_adds.0 {
            ops.push(Op::AddStream { rx: 0 });
            ops.push(Op::DropRx { rx: 65535 });
        }
        finish(&mut ops, pl.hows[0]);
        progs.push(Prog { ops, ret: false });
    }
    // adder + child
    {
        let p = progs.len() as u8;
        let child = p + 1;
        let s = take(&mut table, "P");
        main.push(Op::Spawn { prog: p, tx: vec![], rx: vec![s] });
        let mut ops = Vec::new();
        if pl.adder_single && pl.parent_handles == 1 {
            ops.push(Op::IntoSingle { rx: 0 });
        }
        for _ in 0..pl.pre_recv {
            ops.push(Op::TryRecv { rx: 0 });
        }
        ops.push(Op::AddStream { rx: 0 }); // adder table: [P, S]
        if pl.second_add {
            // a stream created from the new stream before anything was taken from it
            ops.push(Op::AddStream { rx: sel(1, 2) }); // [P, S, S2]
            ops.push(Op::Spawn { prog: child, tx: vec![], rx: vec![sel(1, 3), sel(1, 2)] });
        } else {
            ops.push(Op::Spawn { prog: child, tx: vec![], rx: vec![sel(1, 2)] });
        }
        finish(&mut ops, pl.hows[1]);
        ops.push(Op::JoinAll);
        progs.push(Prog { ops, ret: false });
        // the child drains the new stream(s) with non-blocking receives alternately, so that
        // neither of its streams holds the producers back while it waits on the other
        let mut cops = vec![];
        if pl.second_add {
            cops.push(Op::Spawn { prog: child + 1, tx: vec![], rx: vec![sel(1, 2)] });
        }
        if pl.tasks.1 && q.futures {
            // (skipped unless the new stream is a single-consumer receiver)
            cops.push(Op::IntoMulti { rx: 0 });
        }
        cops.push(Op::Drain { rx: 0, how: pl.hows[2], extra: 0 });
        if pl.second_add {
            cops.push(Op::JoinAll);
        }
        progs.push(Prog { ops: cops, ret: false });
        if pl.second_add {
            progs.push(Prog { ops: vec![Op::Drain { rx: 0, how: pl.hows[4], extra: 0 }], ret: false });
        }
    }
    // siblings on the parent
    for k in 1..pl.parent_handles {
        let p = progs.len() as u8;
        let s = take(&mut table, "P");
        main.push(Op::Spawn { prog: p, tx: vec![], rx: vec![s] });
        let mut ops = Vec::new();
        for _ in 0..pl.sibling_pre[(k as usize - 1) % 2] {
            ops.push(Op::TryRecv { rx: 0 });
        }
        finish(&mut ops, pl.hows[3]);
        progs.push(Prog { ops, ret: false });
    }
    if pl.other_stream {
        let p = progs.len() as u8;
        let s = take(&mut table, "O");
        main.push(Op::Spawn { prog: p, tx: vec![], rx: vec![s] });
        let mut ops = Vec::new();
        for _ in 0..pl.side_adds.1 {
            ops.push(Op::AddStream { rx: 0 });
            ops.push(Op::DropRx { rx: 65535 });
        }
        finish(&mut ops, pl.hows[4]);
        progs.push(Prog { ops, ret: false });
    }
    main.push(Op::JoinAll);
    progs[0].ops = main;
    Scenario { q, progs, sched: pl.sched.clone(), opts: opts.clone() }
}

// ---- stream removal scenarios (C11) --------------------------------------------------------

pub fn removal_scenario(opts: ExecOpts) -> BoxedStrategy<Scenario> {
    let q = qcfg(BOTH, FutMode::Mixed, prop_oneof![4 => Just(1u8), 4 => Just(2u8), 2 => Just(4u8)].boxed(), wait_any());
    (
        q,
        1u8..=3,                       // handles of the slow stream
        1usize..=2,                    // remover threads
        vec(any::<bool>(), 3),         // unsubscribe or drop
        vec(0u8..3, 3),                // ops of a remover before it removes
        vec(2u8..=7, 1..=2),           // producers: number of sends
        any::<bool>(),                 // third stream
        any::<bool>(),                 // sink tasks
        vec(drain_how(), 2),
        // a second slow stream with one handle, removed by a thread of its own at the same time
        // (two removals colliding on the stream list), and add_stream+drop rounds performed by
        // the third stream's thread while the removals happen
        // (last element) a leaving handle may first be converted to a single-consumer receiver,
        // which has a Drop / unsubscribe of its own (round-5 seed C11-5); the conversion is refused,
        // and the handle kept as it is, while its stream has other handles
        // keep: the third stream's thread adds one more stream while the removals happen and hands
        // it to a child that drains it - a stream that joins the list while other streams leave
        // it must not fall out of it again (round-5 seeds C01-6, C02-6)
        (any::<bool>(), 0u8..3, any::<bool>(), prop_oneof![2 => Just(0u8), 1 => Just(1u8), 1 => Just(2u8)], vec(0u8..3, 4), any::<bool>()),
        schedule(500),
    )
        .prop_map(move |(q, slow_handles, removers, unsub, pre, producers, third, sink, hows, (second, pre2, unsub2, side_adds, conv, keep), sched)| {
            let bcast = q.flavour == Flavour::Broadcast;
            let second = second && bcast;
            let mut main = Vec::new();
            let mut table: Vec<&str> = vec!["A"];
            // slow stream (broadcast) or extra handles of the only stream (mpmc)
            if bcast {
                main.push(Op::AddStream { rx: 0 });
            } else {
                main.push(Op::CloneRx { rx: 0 });
            }
            table.push("S");
            for _ in 1..slow_handles {
                main.push(Op::CloneRx { rx: sel(1, table.len()) });
                table.push("S");
            }
            if third && bcast {
                main.push(Op::AddStream { rx: 0 });
                table.push("T");
            }
            if second {
                main.push(Op::AddStream { rx: 0 });
                table.push("S2");
            }
            for _ in 1..producers.len() {
                main.push(Op::CloneTx { tx: 0 });
            }
            let mut progs: Vec<Prog> = vec![Prog { ops: vec![], ret: false }];
            for k in &producers {
                let p = progs.len() as u8;
                main.push(Op::Spawn { prog: p, tx: vec![0], rx: vec![] });
                progs.push(Prog {
                    ops: (0..*k)
                        .map(|_| if sink && q.futures { Op::SinkSend { tx: 0 } } else { Op::Send { tx: 0, max: 0 } })
                        .collect(),
                    ret: false,
                });
            }
            let mut take = |table: &mut Vec<&str>, what: &str| -> u16 {
                let idx = table.iter().position(|x| *x == what).unwrap();
                let s = sel(idx, table.len());
                table.remove(idx);
                s
            };
            {
                let p = progs.len() as u8;
                let s = take(&mut table, "A");
                main.push(Op::Spawn { prog: p, tx: vec![], rx: vec![s] });
                progs.push(Prog { ops: vec![Op::Drain { rx: 0, how: hows[0], extra: 0 }], ret: false });
            }
            // removers share the slow handles
            let nrem = removers.min(slow_handles as usize);
            let mut left = slow_handles as usize;
            for r in 0..nrem {
                let takeh = if r + 1 == nrem { left } else { 1 };
                left -= takeh;
                let p = progs.len() as u8;
                let mut rxs = Vec::new();
                for _ in 0..takeh {
                    rxs.push(take(&mut table, "S"));
                }
                main.push(Op::Spawn { prog: p, tx: vec![], rx: rxs });
                let mut ops = Vec::new();
                for _ in 0..pre[r % 3] {
                    ops.push(Op::TryRecv { rx: 0 });
                }
                for k in 0..takeh {
                    if conv[(r + k) % 3] == 0 {
                        ops.push(Op::IntoSingle { rx: 0 });
                    }
                    if unsub[(r + k) % 3] {
                        ops.push(Op::UnsubRx { rx: 0 });
                    } else {
                        ops.push(Op::DropRx { rx: 0 });
                    }
                }
                progs.push(Prog { ops, ret: false });
            }
            if second {
                let p = progs.len() as u8;
                let s = take(&mut table, "S2");
                main.push(Op::Spawn { prog: p, tx: vec![], rx: vec![s] });
                let mut ops = Vec::new();
                for _ in 0..pre2 {
                    ops.push(Op::TryRecv { rx: 0 });
                }
                if conv[3] == 0 {
                    ops.push(Op::IntoSingle { rx: 0 });
                }
                ops.push(if unsub2 { Op::UnsubRx { rx: 0 } } else { Op::DropRx { rx: 0 } });
                progs.push(Prog { ops, ret: false });
            }
            if third && bcast {
                let p = progs.len() as u8;
                let s = take(&mut table, "T");
                main.push(Op::Spawn { prog: p, tx: vec![], rx: vec![s] });
                let mut ops = Vec::new();
                for _ in 0..side_adds {
                    ops.push(Op::AddStream { rx: 0 });
                    ops.push(Op::DropRx { rx: 65535 });
                }
                if keep {
                    ops.push(Op::AddStream { rx: 0 });
                    ops.push(Op::Spawn { prog: p + 1, tx: vec![], rx: vec![sel(1, 2)] });
                }
                ops.push(Op::Drain { rx: 0, how: hows[1], extra: 0 });
                if keep {
                    ops.push(Op::JoinAll);
                }
                progs.push(Prog { ops, ret: false });
                if keep {
                    progs.push(Prog { ops: vec![Op::Drain { rx: 0, how: hows[0], extra: 0 }], ret: false });
                }
            }
            main.push(Op::JoinAll);
            progs[0].ops = main;
            Scenario { q, progs, sched, opts: opts.clone() }
        })
        .boxed()
}

// ---- quiescence scenarios (C06) ------------------------------------------------------------

pub fn quiescence_scenario(opts: ExecOpts) -> BoxedStrategy<Scenario> {
    let q = qcfg(BOTH, FutMode::Mixed, cap_small(), wait_any());
    let pop = wunion(vec![
        (6, Just(Op::TrySend { tx: 0 }).boxed()),
        (3, (1u8..3).prop_map(|k| Op::Send { tx: 0, max: k }).boxed()),
        (2, Just(Op::StartSend { tx: 0, by_ref: true }).boxed()),
        (1, Just(Op::WithCloneTx { tx: 0, sends: 1 }).boxed()),
        (1, Just(Op::Yield).boxed()),
    ]);
    let cop = wunion(vec![
        (6, Just(Op::TryRecv { rx: 0 }).boxed()),
        (3, Just(Op::TryView { rx: 0 }).boxed()),
        (2, Just(Op::Poll { rx: 0, by_ref: true }).boxed()),
        (1, (0u8..3).prop_map(|k| Op::TryIter { rx: 0, max: k, variant: k }).boxed()),
        (1, any::<bool>().prop_map(|u| Op::WithCloneRx { rx: 0, unsub: u }).boxed()),
        (1, Just(Op::IntoSingle { rx: 0 }).boxed()),
        (1, Just(Op::IntoMulti { rx: 0 }).boxed()),
        (1, Just(Op::Yield).boxed()),
    ]);
    (
        q,
        0u8..=4,
        vec(vec(pop, 1..8), 1..=3),
        vec(vec((vec(cop, 0..7), prop_oneof![5 => Just(true), 1 => Just(false)]), 1..=2), 1..=3),
        schedule(400),
        vec(prop_oneof![2 => Just(false), 1 => Just(true)], 3),
        vec(0u8..7, 3),
    )
        .prop_map(move |(q, prefill, producers, mut streams, sched, adds, add_pos)| {
            if q.flavour == Flavour::Mpmc {
                streams.truncate(1);
            }
            let mut main = Vec::new();
            for _ in 0..prefill.min(q.n() as u8) {
                main.push(Op::TrySend { tx: 0 });
            }
            let mut rx_table: Vec<usize> = vec![0];
            for s in 1..streams.len() {
                main.push(Op::AddStream { rx: sel(0, rx_table.len()) });
                rx_table.push(s);
            }
            for (s, cons) in streams.iter().enumerate() {
                for _ in 1..cons.len() {
                    let idx = rx_table.iter().position(|x| *x == s).unwrap();
                    main.push(Op::CloneRx { rx: sel(idx, rx_table.len()) });
                    rx_table.push(s);
                }
            }
            for _ in 1..producers.len() {
                main.push(Op::CloneTx { tx: 0 });
            }
            let mut progs: Vec<Prog> = vec![Prog { ops: vec![], ret: false }];
            for ops in &producers {
                let p = progs.len() as u8;
                main.push(Op::Spawn { prog: p, tx: vec![0], rx: vec![] });
                progs.push(Prog { ops: ops.clone(), ret: true });
            }
            for (s, cons) in streams.iter().enumerate() {
                for (ci, (ops, ret)) in cons.iter().enumerate() {
                    let p = progs.len() as u8;
                    let idx = rx_table.iter().position(|x| *x == s).unwrap();
                    main.push(Op::Spawn { prog: p, tx: vec![], rx: vec![sel(idx, rx_table.len())] });
                    rx_table.remove(idx);
                    let mut ops = ops.clone();
                    // a consumer of a broadcast stream (the only one of its stream or, since the
                    // repair of D8, one of several) may add a stream while the others run (its
                    // conversions are dropped so that the handle keeps the add_stream method);
                    // the new stream is not consumed before the probes
                    if q.flavour == Flavour::Broadcast && adds[(s + ci) % adds.len()] {
                        ops.retain(|o| !matches!(o, Op::IntoSingle { .. }));
                        let at = (add_pos[(s + ci) % add_pos.len()] as usize).min(ops.len());
                        ops.insert(at, Op::AddStream { rx: 0 });
                    }
                    progs.push(Prog { ops, ret: *ret });
                }
            }
            main.push(Op::JoinAll);
            main.push(Op::ProbeQuiescent);
            progs[0].ops = main;
            Scenario { q, progs, sched, opts: opts.clone() }
        })
        .boxed()
}

// ---- solo-run probes (C18) -----------------------------------------------------------------

pub fn probe_scenario(opts: ExecOpts) -> BoxedStrategy<Scenario> {
    let q = qcfg(BOTH, FutMode::Never, cap_small(), wait_no_notify());
    let params = TrafficParams {
        max_values: 6,
        w_clone_rx: 1,
        w_clone_tx: 1,
        w_convert: 1,
        ..TrafficParams::default()
    };
    (traffic_plan(q, params, 400), vec((any::<u16>(), any::<u16>(), 0u8..3), 1..6))
        .prop_map(move |(plan, probes)| {
            let mut sc = build_traffic(&plan, &opts);
            let np = plan.producers.len();
            for (psel, pos, kind) in probes {
                // programs 1..=np are producers, the rest consumers
                let nprog = sc.progs.len() - 1;
                let p = 1 + ((psel as usize * nprog) >> 16);
                let is_producer = p <= np;
                let op = match (is_producer, kind) {
                    (true, _) => Op::ProbeTrySend { tx: 0 },
                    (false, 0) => Op::ProbeTryView { rx: 0 },
                    (false, _) => Op::ProbeTryRecv { rx: 0 },
                };
                let len = sc.progs[p].ops.len();
                let at = (pos as usize * (len + 1)) >> 16;
                sc.progs[p].ops.insert(at, op);
            }
            sc
        })
        .boxed()
}

/// on a move-out queue there is only one stream: an add_stream round becomes a clone round
fn mpmc_round(r: &[Op], flavour: Flavour) -> Vec<Op> {
    if flavour == Flavour::Mpmc && matches!(r.first(), Some(Op::AddStream { .. })) {
        let unsub = matches!(r.get(1), Some(Op::UnsubRx { .. }));
        vec![Op::WithCloneRx { rx: 0, unsub }]
    } else {
        r.to_vec()
    }
}

// ---- churn scenarios (C16) -----------------------------------------------------------------

pub fn churn_scenario(opts: ExecOpts, rounds_max: usize) -> BoxedStrategy<Scenario> {
    churn_scenario_with(opts, rounds_max, wait_any(), FutMode::Mixed)
}

pub fn churn_scenario_with(opts: ExecOpts, rounds_max: usize, wait: BoxedStrategy<WaitKind>, fut: FutMode) -> BoxedStrategy<Scenario> {
    let q = qcfg(BOTH, fut, prop_oneof![Just(1u8), Just(2u8)].boxed(), wait);
    let round = wunion(vec![
        // add a stream and drop it again (retires the list twice, a position, a token)
        (5, any::<bool>().prop_map(|u| vec![Op::AddStream { rx: 0 }, if u { Op::UnsubRx { rx: 65535 } } else { Op::DropRx { rx: 65535 } }]).boxed()),
        (4, any::<bool>().prop_map(|u| vec![Op::WithCloneRx { rx: 0, unsub: u }]).boxed()),
        (3, Just(vec![Op::WithCloneTx { tx: 0, sends: 0 }]).boxed()),
        (2, Just(vec![Op::IntoSingle { rx: 0 }, Op::IntoMulti { rx: 0 }]).boxed()),
        (2, Just(vec![Op::TryRecv { rx: 0 }]).boxed()),
        (1, Just(vec![Op::TrySend { tx: 0 }]).boxed()),
        (1, Just(vec![Op::Yield]).boxed()),
    ]);
    (
        q,
        vec(2u8..=20, 1..=2),                                  // writers: number of sends each
        vec(vec(round, 4..rounds_max), 1..=3),                 // churn threads
        prop_oneof![4 => Just(0usize), 1 => Just(1usize), 1 => Just(2usize)], // idle handles
        // lone-handle threads: a thread that owns nothing but the handle it is giving up (or adding
        // a stream from), so no other token of that thread holds reclamation back while it is
        // suspended in the middle of the stream-list update.  (kind, operations before)
        prop_oneof![3 => Just(vec![]), 3 => vec((0u8..5, 0u8..3), 1..=1), 2 => vec((0u8..5, 0u8..3), 2..=2)],
        prop_oneof![2 => schedule(600), 1 => stall_schedule(600)],
    )
        .prop_map(move |(q, writers, churners, idle, lone, sched)| {
            let mut main = Vec::new();
            // every churner gets a handle of its own stream (broadcast) or a clone (mpmc) plus a
            // sender; the controller keeps only the idle handles
            let lone_rx = lone.iter().filter(|(k, _)| *k < 4).count();
            let lone_tx = lone.len() - lone_rx;
            let nrx = churners.len() + idle + lone_rx;
            for _ in 1..nrx {
                if q.flavour == Flavour::Broadcast {
                    main.push(Op::AddStream { rx: 0 });
                } else {
                    main.push(Op::CloneRx { rx: 0 });
                }
            }
            let ntx = writers.len() + churners.len() + idle + lone_tx;
            for _ in 1..ntx {
                main.push(Op::CloneTx { tx: 0 });
            }
            let mut progs: Vec<Prog> = vec![Prog { ops: vec![], ret: false }];
            for (kind, pre) in &lone {
                let p = progs.len() as u8;
                let mut ops: Vec<Op> = Vec::new();
                if *kind < 4 {
                    main.push(Op::Spawn { prog: p, tx: vec![], rx: vec![0] });
                    for _ in 0..*pre {
                        ops.push(Op::TryRecv { rx: 0 });
                    }
                    match *kind {
                        0 => ops.push(Op::DropRx { rx: 0 }),
                        1 => ops.push(Op::UnsubRx { rx: 0 }),
                        2 => ops.extend(mpmc_round(&[Op::AddStream { rx: 0 }, Op::DropRx { rx: 65535 }], q.flavour)),
                        _ => ops.extend(mpmc_round(&[Op::AddStream { rx: 0 }, Op::DropRx { rx: 0 }], q.flavour)),
                    }
                } else {
                    main.push(Op::Spawn { prog: p, tx: vec![0], rx: vec![] });
                    for _ in 0..*pre {
                        ops.push(Op::TrySend { tx: 0 });
                    }
                    ops.push(Op::DropTx { tx: 0 });
                }
                progs.push(Prog { ops, ret: false });
            }
            for k in &writers {
                let p = progs.len() as u8;
                main.push(Op::Spawn { prog: p, tx: vec![0], rx: vec![] });
                progs.push(Prog { ops: (0..*k).map(|_| Op::Send { tx: 0, max: 3 }).collect(), ret: false });
            }
            for rounds in &churners {
                let p = progs.len() as u8;
                main.push(Op::Spawn { prog: p, tx: vec![0], rx: vec![0] });
                // after every round the thread operates on both of its long-lived handles, so that
                // their reclamation tokens keep up with the epoch ("keeps operating")
                let mut ops: Vec<Op> = Vec::new();
                for r in rounds {
                    ops.extend(mpmc_round(r, q.flavour));
                    ops.push(Op::TrySend { tx: 0 });
                    ops.push(Op::TryRecv { rx: 0 });
                }
                progs.push(Prog { ops, ret: false });
            }
            // the controller keeps the initial receiver and the idle handles and never operates on
            // them while the others run: idle handles may only ever delay reclamation
            main.push(Op::JoinAll);
            progs[0].ops = main;
            Scenario { q, progs, sched, opts: opts.clone() }
        })
        .boxed()
}


// ---- memory churn scenarios (C17) ----------------------------------------------------------

pub fn mem_churn_scenario(opts: ExecOpts, cycle_choices: &'static [u32]) -> BoxedStrategy<Scenario> {
    let q = qcfg(BOTH, FutMode::Mixed, cap_any(), wait_any());
    let round = wunion(vec![
        (5, any::<bool>().prop_map(|u| vec![Op::AddStream { rx: 0 }, if u { Op::UnsubRx { rx: 65535 } } else { Op::DropRx { rx: 65535 } }]).boxed()),
        (4, any::<bool>().prop_map(|u| vec![Op::WithCloneRx { rx: 0, unsub: u }]).boxed()),
        (3, (0u8..2).prop_map(|k| vec![Op::WithCloneTx { tx: 0, sends: k }]).boxed()),
        (2, Just(vec![Op::IntoSingle { rx: 0 }, Op::IntoMulti { rx: 0 }]).boxed()),
        (1, Just(vec![Op::IntoSingle { rx: 0 }, Op::Transform { rx: 0 }, Op::IntoMulti { rx: 0 }]).boxed()),
    ]);
    (
        q,
        0..cycle_choices.len(),
        vec(round, 1..4),
        any::<bool>(),     // an earlier drop of a non-last handle of the long-lived stream
        any::<bool>(),     // a second long-lived stream
        any::<bool>(),     // concurrent traffic thread
        0u8..3,            // values left in the queue
        schedule(200),
        prop_oneof![3 => Just(false), 1 => Just(true)], // every receiver gone: only senders churn
        // a lagging episode before the measured phase: one kept sender handle does not operate
        // for this many cycles (memory may pile up meanwhile), then operates every cycle
        // (lag, how the long-lived receiver receives, how the long-lived sender sends): "keeps
        // operating" ranges over every entry point (round-5 seed C17-5: a receiver that only ever
        // calls recv_view and always finds a value never looked at the epoch signal)
        // (.., rounds of receiver-side churn before the last receiver leaves in the receivers-gone
        // variant - with the kept sender idle meanwhile, so that an epoch is open and unacknowledged
        // when the no-reader flag is raised; round-6 seed C17-8 -, the concurrent traffic thread also
        // clones and drops a sender every cycle, so that the two threads meet in the manager's
        // critical sections; round-6 seed C17-7)
        (prop_oneof![1 => Just(0u8), 1 => 8u8..48], 0u8..8, 0u8..3, prop_oneof![1 => Just(0u8), 2 => 4u8..=30], any::<bool>()),
    )
        .prop_map(move |(q, ci, rounds, early_drop, second, traffic, leftover, sched, rx_gone, (lag, how, send_how, pre_churn, traffic_churns))| {
            let c = cycle_choices[ci];
            let bcast = q.flavour == Flavour::Broadcast;
            if rx_gone {
                // the surviving sender keeps sending (and being refused as Disconnected) while
                // senders are cloned and dropped: memory must still not grow
                let mut main = vec![Op::TrySend { tx: 0 }];
                if pre_churn > 0 {
                    let round = if bcast && pre_churn % 2 == 0 {
                        Op::WithNewStream { rx: 0, unsub: false }
                    } else {
                        Op::WithCloneRx { rx: 0, unsub: pre_churn % 3 == 0 }
                    };
                    main.push(Op::Repeat { times: pre_churn as u32, body: vec![round], sample_after: vec![] });
                }
                main.push(Op::UnsubRx { rx: 0 });
                let mut body: Vec<Op> = Vec::new();
                for (k, _) in rounds.iter().enumerate() {
                    body.push(Op::WithCloneTx { tx: 0, sends: (k % 2) as u8 });
                }
                body.push(Op::TrySend { tx: 0 });
                main.push(Op::Repeat { times: 4 * c, body, sample_after: vec![c, 2 * c, 4 * c] });
                let mut o = opts.clone();
                o.max_steps = 2_000_000_000;
                o.no_log = true;
                return Scenario { q, progs: vec![Prog { ops: main, ret: false }], sched: Schedule::none(), opts: o };
            }
            let mut main = Vec::new();
            if early_drop {
                main.push(Op::WithCloneRx { rx: 0, unsub: false });
            }
            // the concurrent variant is kept short: it doubles the work per cycle
            let traffic = traffic && c <= 1000;
            // blocking and in-place receives need a stream nobody else takes values from
            let how = if traffic && matches!(how, 3 | 4 | 5) { 0 } else { how };
            // a blocking receive must find its value: with a lagging sender that adds a second value
            // per cycle a clone made by a churn round may take the stream's value first
            let how = match how {
                3 if lag > 0 => 0,
                5 if lag > 0 => 4,
                h => h,
            };
            let view = matches!(how, 4 | 5);
            // a single-consumer receiver cannot be cloned or add streams: on a broadcast queue the
            // churn rounds then work from a second stream
            let second = second || (view && bcast);
            if second && bcast {
                main.push(Op::AddStream { rx: 0 });
            }
            if view {
                main.push(Op::IntoSingle { rx: if second && bcast { sel(0, 2) } else { 0 } });
            }
            if lag > 0 {
                main.push(Op::CloneTx { tx: 0 }); // the controller's senders: [long-lived, lagging]
            }
            let mut progs: Vec<Prog> = vec![Prog { ops: vec![], ret: false }];
            if traffic {
                main.push(Op::CloneTx { tx: 0 });
                main.push(Op::CloneRx { rx: 0 });
                main.push(Op::Spawn { prog: 1, tx: vec![65535], rx: vec![65535] });
                progs.push(Prog {
                    ops: vec![Op::Repeat {
                        times: c * 4,
                        // the yield makes the two threads alternate: a thread that is descheduled
                        // for a long time does not "keep operating" and may legitimately delay frees
                        body: if traffic_churns {
                            vec![Op::TrySend { tx: 0 }, Op::TryRecv { rx: 0 }, Op::WithCloneTx { tx: 0, sends: 0 }, Op::Yield]
                        } else {
                            vec![Op::TrySend { tx: 0 }, Op::TryRecv { rx: 0 }, Op::Yield]
                        },
                        sample_after: vec![],
                    }],
                    ret: false,
                });
            }
            let mut body: Vec<Op> = rounds.iter().flat_map(|r| mpmc_round(r, q.flavour)).collect();
            let rx0 = if second && bcast { sel(0, 2) } else { 0 };
            if view && bcast {
                // the rounds work from the second stream (handle 1 of 2)
                let base = sel(1, 2);
                for o in body.iter_mut() {
                    match o {
                        Op::AddStream { rx } | Op::WithCloneRx { rx, .. } | Op::IntoSingle { rx } | Op::IntoMulti { rx } | Op::Transform { rx }
                            if *rx == 0 =>
                        {
                            *rx = base
                        }
                        _ => {}
                    }
                }
            } else if view {
                // the rounds may have left the receiver shared: make it single again
                body.push(Op::IntoSingle { rx: 0 });
            }
            // the long-lived handles operate every cycle
            body.push(if send_how == 2 { Op::StartSend { tx: 0, by_ref: true } } else { Op::TrySend { tx: 0 } });
            body.push(match how {
                3 => Op::RecvN { rx: rx0, k: 1, view: false },
                4 => Op::TryView { rx: rx0 },
                5 => Op::RecvN { rx: rx0, k: 1, view: true },
                6 if q.futures => Op::Poll { rx: rx0, by_ref: true },
                7 if !q.futures => Op::TryIter { rx: rx0, max: 1, variant: 0 },
                _ => Op::TryRecv { rx: rx0 },
            });
            if second && bcast {
                body.push(Op::TryRecv { rx: 65535 });
                if traffic {
                    // two values are sent per cycle: the second stream must keep up, or the queue
                    // stays full and both threads only see refusals
                    body.push(Op::TryRecv { rx: 65535 });
                }
            }
            if traffic {
                body.push(Op::Yield);
            }
            if lag > 0 {
                main.push(Op::Repeat { times: lag as u32, body: body.clone(), sample_after: vec![] });
                body.push(Op::TrySend { tx: sel(1, 2) });
            }
            main.push(Op::Repeat { times: 4 * c, body, sample_after: vec![c, 2 * c, 4 * c] });
            for _ in 0..leftover {
                main.push(Op::TrySend { tx: 0 });
            }
            main.push(Op::JoinAll);
            progs[0].ops = main;
            let mut o = opts.clone();
            o.max_steps = 2_000_000_000;
            o.no_log = true;
            // the two threads keep being preempted inside their calls for the whole run, not only
            // during the first few hundred decisions (round-6 seed C17-7 needs one thread inside the
            // manager's critical section at the moment the other crosses the retirement threshold)
            o.cyclic_schedule = traffic;
            // priority schedules starve the low-priority thread inside retry loops for the whole
            // run, which makes the run inconclusive: use random-walk schedules here
            let sched = match sched.policy {
                Policy::Pct { .. } => Schedule { policy: Policy::Walk { stay: 223, target: None, stay_target: 223 }, bytes: sched.bytes },
                _ => sched,
            };
            Scenario { q, progs, sched, opts: o }
        })
        .boxed()
}


/// churn scenarios (many retirements, so that reclamation epochs are opened and the manager
/// locks are taken often) with solo-run probes inserted at generated positions (C18)
pub fn probe_churn_scenario(opts: ExecOpts) -> BoxedStrategy<Scenario> {
    // C18 speaks about queues whose wait strategy needs no notification: no futures queues
    (churn_scenario_with(opts, 24, wait_no_notify(), FutMode::Never), vec((any::<u16>(), any::<u16>(), 0u8..3), 2..8))
        .prop_map(|(mut sc, probes)| {
            for (psel, pos, kind) in probes {
                let nprog = sc.progs.len() - 1;
                if nprog == 0 {
                    continue;
                }
                let p = 1 + ((psel as usize * nprog) >> 16);
                let has_rx = sc.progs[p].ops.iter().any(|o| matches!(o, Op::TryRecv { .. } | Op::AddStream { .. }));
                let op = match (has_rx, kind) {
                    (true, 0) => Op::ProbeTryRecv { rx: 0 },
                    (true, 1) => Op::ProbeTryView { rx: 0 },
                    _ => Op::ProbeTrySend { tx: 0 },
                };
                let len = sc.progs[p].ops.len();
                let at = (pos as usize * (len + 1)) >> 16;
                sc.progs[p].ops.insert(at, op);
            }
            sc
        })
        .boxed()
}


// ---- handles dropped by unwinding ------------------------------------------------------------

/// (mask of explicit drops, mask of programs whose final drops) that happen during the unwinding
/// of a panic; mostly none
pub fn unwinding_masks() -> BoxedStrategy<(u16, u16)> {
    prop_oneof![
        6 => Just((0u16, 0u16)),
        1 => (any::<u16>(), Just(0u16)),
        1 => (Just(0u16), any::<u16>()),
        1 => (any::<u16>(), any::<u16>()),
    ]
    .boxed()
}

/// Turns the j-th explicit handle drop of the scenario (in program order, nested bodies included)
/// into a drop by unwinding when bit (j mod 16) of `drops` is set, and lets the programs selected
/// by `ends` die (drop what they still own by unwinding).  A dropped handle behaves the same
/// whichever way it is dropped, so this changes nothing in what the oracles expect.
pub fn apply_unwinding(mut sc: Scenario, drops: u16, ends: u16) -> Scenario {
    fn walk(ops: &mut Vec<Op>, j: &mut u32, mask: u16) {
        for o in ops.iter_mut() {
            match o {
                Op::DropRx { rx } => {
                    if (mask >> (*j % 16)) & 1 == 1 {
                        *o = Op::DropRxUnw { rx: *rx };
                    }
                    *j += 1;
                }
                Op::DropTx { tx } => {
                    if (mask >> (*j % 16)) & 1 == 1 {
                        *o = Op::DropTxUnw { tx: *tx };
                    }
                    *j += 1;
                }
                Op::Repeat { body, .. } => walk(body, j, mask),
                _ => {}
            }
        }
    }
    if drops != 0 {
        let mut j = 0u32;
        for p in sc.progs.iter_mut() {
            walk(&mut p.ops, &mut j, drops);
        }
    }
    sc.opts.unwind_end = ends;
    sc
}
