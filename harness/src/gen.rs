//! Generators.  Every scenario is built by construction from plain generated numbers (so that
//! shrinking the numbers shrinks the scenario) and is interpretable in every state: an operation
//! whose target does not exist is skipped and counted.

use crate::handles::{Flavour, QCfg, WaitKind};
use crate::ops::{DrainHow, ExecOpts, Op, Prog, Scenario};
use crate::rt::{Policy, Schedule, MAX_THREADS};
use proptest::collection::vec;
use proptest::prelude::*;

/// selector that `ops::pick` maps to index `idx` in a table of `len` entries
pub fn sel(idx: usize, len: usize) -> u16 {
    debug_assert!(idx < len);
    let s = (idx * 65536 + len - 1) / len;
    debug_assert!((s * len) >> 16 == idx);
    s as u16
}

/// weighted union that ignores zero-weight options
pub fn wunion<T: std::fmt::Debug + 'static>(v: Vec<(u32, BoxedStrategy<T>)>) -> proptest::strategy::Union<BoxedStrategy<T>> {
    proptest::strategy::Union::new_weighted(v.into_iter().filter(|(w, _)| *w > 0).collect::<Vec<_>>())
}

// ---- configuration ------------------------------------------------------------------------

pub fn cap_small() -> BoxedStrategy<u8> {
    prop_oneof![
        6 => Just(1u8),
        6 => Just(2u8),
        2 => Just(0u8),
        3 => Just(3u8),
        4 => Just(4u8),
        1 => 5u8..=9u8,
    ]
    .boxed()
}

pub fn cap_any() -> BoxedStrategy<u8> {
    (0u8..=9u8).boxed()
}

pub fn wait_any() -> BoxedStrategy<WaitKind> {
    prop_oneof![
        3 => Just(WaitKind::Busy),
        2 => Just(WaitKind::Yield(0, 0)),
        2 => Just(WaitKind::Yield(1, 1)),
        3 => Just(WaitKind::Block(0, 0)),
        2 => Just(WaitKind::Block(1, 1)),
        1 => Just(WaitKind::Block(2, 0)),
        1 => Just(WaitKind::Yield(2, 0)),
        1 => Just(WaitKind::YieldDefault),
        1 => Just(WaitKind::BlockDefault),
    ]
    .boxed()
}

pub fn wait_no_notify() -> BoxedStrategy<WaitKind> {
    prop_oneof![
        3 => Just(WaitKind::Busy),
        2 => Just(WaitKind::Yield(0, 1)),
        2 => Just(WaitKind::Yield(1, 1)),
        1 => Just(WaitKind::Yield(2, 2)),
    ]
    .boxed()
}

pub fn fut_spins() -> BoxedStrategy<Option<(u8, u8)>> {
    prop_oneof![
        4 => Just(Some((0u8, 0u8))),
        3 => Just(Some((1u8, 1u8))),
        1 => Just(Some((2u8, 0u8))),
        1 => Just(None),
    ]
    .boxed()
}

#[derive(Clone, Copy, Debug, PartialEq, Eq)]
pub enum FutMode {
    Never,
    Always,
    Mixed,
}

pub fn qcfg(flavours: &'static [Flavour], fut: FutMode, cap: BoxedStrategy<u8>, wait: BoxedStrategy<WaitKind>) -> BoxedStrategy<QCfg> {
    let futs = match fut {
        FutMode::Never => Just(false).boxed(),
        FutMode::Always => Just(true).boxed(),
        FutMode::Mixed => prop_oneof![2 => Just(false), 1 => Just(true)].boxed(),
    };
    (0..flavours.len(), futs, cap, wait, fut_spins())
        .prop_map(move |(f, futures, cap, wait, fs)| {
            let flavour = flavours[f];
            QCfg {
                flavour,
                futures,
                cap,
                wait,
                // the mpmc futures queue only has the default constructor
                fut_spins: if flavour == Flavour::Mpmc { None } else { fs },
            }
        })
        .boxed()
}

pub const BOTH: &[Flavour] = &[Flavour::Broadcast, Flavour::Mpmc];
pub const BCAST: &[Flavour] = &[Flavour::Broadcast];
pub const MPMC: &[Flavour] = &[Flavour::Mpmc];

// ---- schedules ----------------------------------------------------------------------------

pub fn schedule(max_len: usize) -> BoxedStrategy<Schedule> {
    let policy = prop_oneof![
        3 => Just(Policy::Walk { stay: 127, target: None, stay_target: 127 }),
        3 => Just(Policy::Walk { stay: 223, target: None, stay_target: 223 }),
        2 => Just(Policy::Walk { stay: 247, target: None, stay_target: 247 }),
        4 => (0u8..28u8).prop_map(|t| Policy::Walk { stay: 247, target: Some(t), stay_target: 100 }),
        6 => (any::<[u8; MAX_THREADS]>(), vec(0u32..600u32, 1..=4)).prop_map(|(prio, change)| Policy::Pct { prio, change }),
    ];
    (policy, vec(any::<u8>(), 0..max_len))
        .prop_map(|(policy, bytes)| Schedule { policy, bytes })
        .boxed()
}

// ---- sequential histories (E2) ------------------------------------------------------------

#[derive(Clone, Copy, Debug, PartialEq, Eq)]
pub struct SeqAlphabet {
    pub futures_ops: bool,
    pub add_stream: bool,
    pub teardown: bool,
}

pub fn seq_op(a: SeqAlphabet) -> BoxedStrategy<Op> {
    let s = || any::<u16>();
    let mut v: Vec<(u32, BoxedStrategy<Op>)> = vec![
        (12, s().prop_map(|tx| Op::TrySend { tx }).boxed()),
        (8, s().prop_map(|rx| Op::TryRecv { rx }).boxed()),
        (3, s().prop_map(|rx| Op::Recv { rx }).boxed()),
        (3, s().prop_map(|rx| Op::TryView { rx }).boxed()),
        (2, s().prop_map(|rx| Op::RecvView { rx }).boxed()),
        (2, (s(), 0u8..4, any::<u8>()).prop_map(|(rx, max, variant)| Op::TryIter { rx, max, variant }).boxed()),
        (1, (s(), 0u8..3, any::<u8>()).prop_map(|(rx, max, variant)| Op::IntoIter { rx, max, variant }).boxed()),
        (2, s().prop_map(|tx| Op::CloneTx { tx }).boxed()),
        (2, s().prop_map(|tx| Op::DropTx { tx }).boxed()),
        (1, s().prop_map(|tx| Op::UnsubTx { tx }).boxed()),
        (3, s().prop_map(|rx| Op::CloneRx { rx }).boxed()),
        (2, s().prop_map(|rx| Op::DropRx { rx }).boxed()),
        (2, s().prop_map(|rx| Op::UnsubRx { rx }).boxed()),
        (3, s().prop_map(|rx| Op::IntoSingle { rx }).boxed()),
        (2, s().prop_map(|rx| Op::IntoMulti { rx }).boxed()),
    ];
    if a.add_stream {
        v.push((4, s().prop_map(|rx| Op::AddStream { rx }).boxed()));
    }
    if a.futures_ops {
        v.push((8, (s(), any::<bool>()).prop_map(|(tx, by_ref)| Op::StartSend { tx, by_ref }).boxed()));
        v.push((8, (s(), any::<bool>()).prop_map(|(rx, by_ref)| Op::Poll { rx, by_ref }).boxed()));
        v.push((1, s().prop_map(|tx| Op::PollComplete { tx }).boxed()));
        v.push((1, s().prop_map(|rx| Op::Transform { rx }).boxed()));
    }
    wunion(v).boxed()
}

/// explicit teardown: a generated order of handle drops appended to a history
pub fn teardown_ops() -> BoxedStrategy<Vec<Op>> {
    vec(
        prop_oneof![
            any::<u16>().prop_map(|tx| Op::DropTx { tx }),
            any::<u16>().prop_map(|rx| Op::DropRx { rx }),
            any::<u16>().prop_map(|rx| Op::UnsubRx { rx }),
        ],
        0..14,
    )
    .boxed()
}

pub fn seq_scenario(q: BoxedStrategy<QCfg>, max_len: usize, add_stream_on_mpmc: bool, opts: ExecOpts) -> BoxedStrategy<Scenario> {
    // no flat_map: the whole alphabet is generated and adapted to the configuration afterwards,
    // so that proptest can shrink the operation vector element by element
    let a = SeqAlphabet { futures_ops: true, add_stream: true, teardown: true };
    // length distribution: many short histories, some long ones
    let keep = prop_oneof![6 => 1usize..24, 3 => 24usize..80, 1 => 80usize..max_len.max(81)];
    (q, vec(seq_op(a), 1..=max_len.max(2)), keep, teardown_ops())
        .prop_map(move |(q, mut ops, keep, td)| {
            ops.truncate(keep.max(1));
            for o in ops.iter_mut() {
                match o {
                    // a second stream on a move-out queue is defect D7: excluded by construction
                    // unless asked for
                    Op::AddStream { rx } if q.flavour == Flavour::Mpmc && !add_stream_on_mpmc => {
                        *o = Op::TryRecv { rx: *rx }
                    }
                    _ => {}
                }
            }
            ops.extend(td);
            Scenario {
                q,
                progs: vec![Prog { ops, ret: false }],
                sched: Schedule::none(),
                opts: opts.clone(),
            }
        })
        .boxed()
}

// ---- concurrent traffic scenarios (E1) ----------------------------------------------------

#[derive(Clone, Debug)]
pub enum POp {
    Send,
    TrySend,
    SendK(u8),
    /// clone the sender, send one value through the clone, drop the clone
    CloneSendDrop,
    /// clone the sender and hand the clone to a child thread that sends `k` values
    Yield,
}

#[derive(Clone, Debug)]
pub enum COp {
    TryRecv,
    Recv,
    TryView,
    RecvView,
    TryIter(u8),
    Poll,
    Next,
    Yield,
    /// clone this receiver, receive once through the clone, drop the clone
    CloneRecvDrop,
    IntoSingle,
    IntoMulti,
}

#[derive(Clone, Debug)]
pub enum Fin {
    Drain(DrainHow, u8),
    Leave,
}

#[derive(Clone, Debug)]
pub struct ProducerPlan {
    pub ops: Vec<POp>,
    /// wait until the k-th latest accepted value has been delivered before dropping the sender
    pub gate: Option<u8>,
    pub sink: bool,
}

#[derive(Clone, Debug)]
pub struct ConsumerPlan {
    pub ops: Vec<COp>,
    pub fin: Fin,
    pub single: bool,
}

#[derive(Clone, Debug)]
pub struct TrafficPlan {
    pub q: QCfg,
    pub prefill: u8,
    pub producers: Vec<ProducerPlan>,
    /// consumers per stream; stream 0 is the initial one
    pub streams: Vec<Vec<ConsumerPlan>>,
    pub sched: Schedule,
    pub weak_cas: bool,
}

#[derive(Clone, Debug)]
pub struct TrafficParams {
    pub max_producers: usize,
    pub max_values: usize,
    pub max_streams: usize,
    pub max_consumers: usize,
    pub w_send: u32,
    pub w_try: u32,
    pub w_sendk: u32,
    pub w_clone_tx: u32,
    pub w_clone_rx: u32,
    pub w_convert: u32,
    pub leave: u32,
    pub gates: bool,
    pub sink_tasks: bool,
    pub blocking_only: bool,
}

impl Default for TrafficParams {
    fn default() -> Self {
        TrafficParams {
            max_producers: 3,
            max_values: 8,
            max_streams: 3,
            max_consumers: 3,
            w_send: 6,
            w_try: 3,
            w_sendk: 2,
            w_clone_tx: 0,
            w_clone_rx: 0,
            w_convert: 0,
            leave: 1,
            gates: false,
            sink_tasks: false,
            blocking_only: false,
        }
    }
}

fn producer_plan(p: TrafficParams) -> BoxedStrategy<ProducerPlan> {
    let op = wunion(vec![
        (p.w_send.max(1), Just(POp::Send).boxed()),
        (p.w_try, Just(POp::TrySend).boxed()),
        (p.w_sendk, (1u8..4).prop_map(POp::SendK).boxed()),
        (p.w_clone_tx, Just(POp::CloneSendDrop).boxed()),
        (1, Just(POp::Yield).boxed()),
    ]);
    let gate = if p.gates {
        prop_oneof![1 => Just(None), 2 => (0u8..2).prop_map(Some)].boxed()
    } else {
        Just(None).boxed()
    };
    let sink = if p.sink_tasks { any::<bool>().boxed() } else { Just(false).boxed() };
    (vec(op, 1..=p.max_values), gate, sink)
        .prop_map(|(ops, gate, sink)| ProducerPlan { ops, gate, sink })
        .boxed()
}

fn consumer_plan(p: TrafficParams, may_leave: bool) -> BoxedStrategy<ConsumerPlan> {
    let op = if p.blocking_only {
        wunion(vec![
            (4, Just(COp::Recv).boxed()),
            (2, Just(COp::RecvView).boxed()),
            (1, Just(COp::Yield).boxed()),
        ])
    } else {
        wunion(vec![
            (4, Just(COp::TryRecv).boxed()),
            (3, Just(COp::Recv).boxed()),
            (2, Just(COp::TryView).boxed()),
            (2, Just(COp::RecvView).boxed()),
            (1, (0u8..3).prop_map(COp::TryIter).boxed()),
            (2, Just(COp::Poll).boxed()),
            (2, Just(COp::Next).boxed()),
            (1, Just(COp::Yield).boxed()),
            (p.w_clone_rx, Just(COp::CloneRecvDrop).boxed()),
            (p.w_convert, Just(COp::IntoSingle).boxed()),
            (p.w_convert, Just(COp::IntoMulti).boxed()),
        ])
    };
    let drain = if p.blocking_only {
        prop_oneof![
            3 => Just(DrainHow::Blocking),
            2 => Just(DrainHow::View),
            1 => Just(DrainHow::Iter),
        ]
        .boxed()
    } else {
        prop_oneof![
            3 => Just(DrainHow::Try),
            3 => Just(DrainHow::Blocking),
            2 => Just(DrainHow::View),
            2 => Just(DrainHow::Poll),
            1 => Just(DrainHow::Iter),
        ]
        .boxed()
    };
    let fin = if may_leave && p.leave > 0 {
        prop_oneof![
            8 => (drain.clone(), 0u8..3).prop_map(|(h, e)| Fin::Drain(h, e)),
            p.leave => Just(Fin::Leave),
        ]
        .boxed()
    } else {
        (drain, 0u8..3).prop_map(|(h, e)| Fin::Drain(h, e)).boxed()
    };
    (vec(op, 0..6), fin, any::<bool>())
        .prop_map(|(ops, fin, single)| ConsumerPlan { ops, fin, single })
        .boxed()
}

pub fn traffic_plan(q: BoxedStrategy<QCfg>, p: TrafficParams, sched_len: usize) -> BoxedStrategy<TrafficPlan> {
    q.prop_flat_map(move |q| {
        let max_streams = if q.flavour == Flavour::Mpmc { 1 } else { p.max_streams };
        let p2 = p.clone();
        let p3 = p.clone();
        let streams = vec(
            (consumer_plan(p2.clone(), false), vec(consumer_plan(p2.clone(), true), 0..p2.max_consumers))
                .prop_map(|(first, mut rest)| {
                    rest.insert(0, first);
                    rest
                }),
            1..=max_streams,
        );
        (
            Just(q),
            0u8..=(q.n() as u8),
            vec(producer_plan(p3), 1..=p.max_producers),
            streams,
            schedule(sched_len),
            prop_oneof![7 => Just(false), 1 => Just(true)],
        )
            .prop_map(|(q, prefill, producers, mut streams, sched, weak_cas)| {
                // thread budget: main + producers + consumers <= MAX_THREADS
                let mut budget = MAX_THREADS - 1 - producers.len();
                for s in streams.iter_mut() {
                    let keep = s.len().min(budget.max(1));
                    s.truncate(keep.max(1));
                    budget = budget.saturating_sub(s.len());
                }
                let mut total = 0;
                streams.retain(|s| {
                    total += s.len();
                    total + producers.len() + 1 <= MAX_THREADS
                });
                TrafficPlan { q, prefill, producers, streams, sched, weak_cas }
            })
    })
    .boxed()
}

/// Builds the scenario of a traffic plan.
///
/// Layout: program 0 is the controller (prelude, spawns, JoinAll); programs 1..=P are producers;
/// the following programs are consumers, stream by stream.  The controller keeps no handle while
/// the others run, every producer drops its sender at the end, and every stream's first consumer
/// drains to the end, so a correct queue terminates under every fair schedule.
pub fn build_traffic(plan: &TrafficPlan, opts: &ExecOpts) -> Scenario {
    let q = plan.q;
    let np = plan.producers.len();
    let nstreams = plan.streams.len();
    let mut main: Vec<Op> = Vec::new();
    // prelude: prefill while the queue has only the initial stream
    for _ in 0..plan.prefill {
        main.push(Op::TrySend { tx: 0 });
    }
    // receiver table of the controller: [stream0, stream1, ...] then clones appended
    let mut rx_table: Vec<usize> = vec![0]; // stream of each table entry
    for s in 1..nstreams {
        main.push(Op::AddStream { rx: sel(0, rx_table.len()) });
        rx_table.push(s);
    }
    for (s, cons) in plan.streams.iter().enumerate() {
        for _ in 1..cons.len() {
            let idx = rx_table.iter().position(|x| *x == s).unwrap();
            main.push(Op::CloneRx { rx: sel(idx, rx_table.len()) });
            rx_table.push(s);
        }
    }
    for _ in 1..np {
        main.push(Op::CloneTx { tx: 0 });
    }
    let mut progs: Vec<Prog> = vec![Prog { ops: vec![], ret: false }];
    // producers
    for pp in &plan.producers {
        let prog_no = progs.len() as u8;
        main.push(Op::Spawn { prog: prog_no, tx: vec![0], rx: vec![] });
        let mut ops = Vec::new();
        for o in &pp.ops {
            match o {
                POp::Send => ops.push(if pp.sink && q.futures { Op::SinkSend { tx: 0 } } else { Op::Send { tx: 0, max: 0 } }),
                POp::TrySend => ops.push(if pp.sink && q.futures { Op::StartSend { tx: 0, by_ref: true } } else { Op::TrySend { tx: 0 } }),
                POp::SendK(k) => ops.push(Op::Send { tx: 0, max: *k }),
                POp::CloneSendDrop => ops.push(Op::WithCloneTx { tx: 0, sends: 1 }),
                POp::Yield => ops.push(Op::Yield),
            }
        }
        if let Some(k) = pp.gate {
            ops.push(Op::WaitDelivered { seq: k });
        }
        progs.push(Prog { ops, ret: false });
    }
    // consumers: hand each its receiver; table entries are removed as they are handed out
    for (s, cons) in plan.streams.iter().enumerate() {
        for cp in cons {
            let prog_no = progs.len() as u8;
            let idx = rx_table.iter().position(|x| *x == s).unwrap();
            main.push(Op::Spawn { prog: prog_no, tx: vec![], rx: vec![sel(idx, rx_table.len())] });
            rx_table.remove(idx);
            let mut ops = Vec::new();
            if cp.single {
                ops.push(Op::IntoSingle { rx: 0 });
            }
            for o in &cp.ops {
                match o {
                    COp::TryRecv => ops.push(Op::TryRecv { rx: 0 }),
                    COp::Recv => ops.push(Op::RecvN { rx: 0, k: 1, view: false }),
                    COp::TryView => ops.push(Op::TryView { rx: 0 }),
                    COp::RecvView => ops.push(Op::RecvN { rx: 0, k: 1, view: true }),
                    COp::TryIter(k) => ops.push(Op::TryIter { rx: 0, max: *k, variant: *k }),
                    COp::Poll => ops.push(Op::Poll { rx: 0, by_ref: true }),
                    COp::Next => ops.push(Op::StreamNext { rx: 0 }),
                    COp::Yield => ops.push(Op::Yield),
                    COp::CloneRecvDrop => ops.push(Op::WithCloneRx { rx: 0, unsub: false }),
                    COp::IntoSingle => ops.push(Op::IntoSingle { rx: 0 }),
                    COp::IntoMulti => ops.push(Op::IntoMulti { rx: 0 }),
                }
            }
            match &cp.fin {
                Fin::Drain(how, extra) => ops.push(Op::Drain { rx: 0, how: *how, extra: *extra }),
                Fin::Leave => {}
            }
            progs.push(Prog { ops, ret: false });
        }
    }
    main.push(Op::JoinAll);
    progs[0].ops = main;
    let mut o = opts.clone();
    o.weak_cas = plan.weak_cas;
    Scenario { q, progs, sched: plan.sched.clone(), opts: o }
}

pub fn traffic(q: BoxedStrategy<QCfg>, p: TrafficParams, sched_len: usize, opts: ExecOpts) -> BoxedStrategy<Scenario> {
    traffic_plan(q, p, sched_len)
        .prop_map(move |plan| build_traffic(&plan, &opts))
        .boxed()
}
