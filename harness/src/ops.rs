//! Operations, scenarios, the interpreter that executes a scenario on managed threads, and the
//! call log every oracle works on.

use crate::handles::{self, create, QCfg, RecvOut, Rx, RxKind, SendOut, Tx, TASK_ID_BASE};
use crate::model::Model;
use crate::payload::{self, LedgerSummary, Seen, Tracked};
use crate::rt::{sched, Act, ExecCfg, Outcome, Schedule};
use serde::{Deserialize, Serialize};
use std::sync::{Arc, Mutex, MutexGuard};

#[derive(Clone, Copy, Debug, PartialEq, Eq, Hash, Serialize, Deserialize)]
pub enum DrainHow {
    Try,
    Blocking,
    View,
    Poll,
    Iter,
}

/// Drops `h` the way a panicking thread drops what it owns: from the unwinding of a panic, so
/// that `std::thread::panicking()` is true inside the handle's destructor.  The panic is raised
/// with `resume_unwind` (no panic hook) and caught here.  The destructor is itself run under
/// `catch_unwind`: when the scheduler tears the execution down while the destructor is suspended
/// at a scheduling point it unwinds the thread with its own payload, and a second panic must not
/// leave a destructor that runs during unwinding (the process would abort); the payload is
/// carried out and resumed once the first unwinding is over.
pub fn drop_while_unwinding<H>(h: H) {
    use std::any::Any;
    use std::panic::{catch_unwind, resume_unwind, AssertUnwindSafe};
    struct Marker;
    struct Carrier<H> {
        h: Option<H>,
        stash: *mut Option<Box<dyn Any + Send>>,
    }
    impl<H> Drop for Carrier<H> {
        fn drop(&mut self) {
            let h = self.h.take();
            debug_assert!(std::thread::panicking());
            crate::rt::set_deliberate_unwind(true);
            let r = catch_unwind(AssertUnwindSafe(move || drop(h)));
            crate::rt::set_deliberate_unwind(false);
            if let Err(p) = r {
                unsafe { *self.stash = Some(p) }
            }
        }
    }
    let mut stash: Option<Box<dyn Any + Send>> = None;
    let sp = &mut stash as *mut Option<Box<dyn Any + Send>>;
    let r = catch_unwind(AssertUnwindSafe(move || {
        let _c = Carrier { h: Some(h), stash: sp };
        resume_unwind(Box::new(Marker));
    }));
    match r {
        Err(p) if p.is::<Marker>() => {}
        Err(p) => resume_unwind(p),
        Ok(()) => unreachable!(),
    }
    if let Some(p) = stash {
        resume_unwind(p)
    }
}

#[derive(Clone, Debug, PartialEq, Eq, Hash, Serialize, Deserialize)]
pub enum Op {
    // ---- senders (`tx` selects among the thread's live senders)
    TrySend { tx: u16 },
    /// retry try_send, yielding between attempts, until accepted / disconnected / `max` attempts
    /// (0 = no limit while a receiver handle is alive)
    Send { tx: u16, max: u8 },
    StartSend { tx: u16, by_ref: bool },
    /// task loop: start_send until Ready or Err, parking the task on NotReady
    SinkSend { tx: u16 },
    PollComplete { tx: u16 },
    CloneTx { tx: u16 },
    DropTx { tx: u16 },
    /// the handle is dropped by the unwinding of a panic on the owning thread
    /// (`std::thread::panicking()` is true inside its destructor)
    DropTxUnw { tx: u16 },
    UnsubTx { tx: u16 },
    // ---- receivers
    TryRecv { rx: u16 },
    Recv { rx: u16 },
    TryView { rx: u16 },
    RecvView { rx: u16 },
    TryIter { rx: u16, max: u8, variant: u8 },
    IntoIter { rx: u16, max: u8, variant: u8 },
    /// a non-blocking iterator kept alive across a send: next() up to `max`+1 times or to the
    /// first None, then a try_send through `tx`, then up to two more next() on the same iterator
    /// With `clone_to` > 0 the middle action is instead: clone the receiver (while the iterator
    /// borrows it) and start program `clone_to` with the clone; then up to four more next() with a
    /// harness yield after each, so that the old iterator and the new sibling receive concurrently.
    TryIterAcross {
        rx: u16,
        tx: u16,
        max: u8,
        variant: u8,
        #[serde(default)]
        clone_to: u8,
    },
    Poll { rx: u16, by_ref: bool },
    /// task loop: poll until Ready, parking the task on NotReady
    StreamNext { rx: u16 },
    AddStream { rx: u16 },
    CloneRx { rx: u16 },
    DropRx { rx: u16 },
    /// as `DropTxUnw`, for a receiver
    DropRxUnw { rx: u16 },
    UnsubRx { rx: u16 },
    IntoSingle { rx: u16 },
    IntoMulti { rx: u16 },
    Transform { rx: u16 },
    /// receive until the end is reported, then `extra` more calls (which must report the end too)
    Drain { rx: u16, how: DrainHow, extra: u8 },
    /// receive `k` values with the blocking entry point (stops early at the end)
    RecvN { rx: u16, k: u8, view: bool },
    // ---- threads and harness
    /// start program `prog`, moving the selected handles to it
    Spawn { prog: u8, tx: Vec<u16>, rx: Vec<u16> },
    /// wait for program `prog` and take over the handles it returned
    Join { prog: u8 },
    JoinAll,
    /// wait until this thread's own value number `seq` has been delivered to some consumer
    WaitDelivered { seq: u8 },
    Yield,
    /// clone the sender, send `sends` values through the clone (retrying), drop the clone
    WithCloneTx { tx: u16, sends: u8 },
    /// clone the receiver (if it can be cloned), try to receive once through the clone, drop it
    WithCloneRx { rx: u16, unsub: bool },
    /// add a stream from the handle and remove it again at once (drop or unsubscribe); skipped as
    /// a whole when the handle cannot add a stream or the queue moves values out (defect D7)
    WithNewStream { rx: u16, unsub: bool },
    /// solo-run probe (C18): freeze all other threads and run one try operation alone
    ProbeTrySend { tx: u16 },
    ProbeTryRecv { rx: u16 },
    ProbeTryView { rx: u16 },
    /// epilogue probes (C06)
    ProbeQuiescent,
    /// run `body` `times` times; after the iterations listed in `sample_after` (1-based) record the
    /// bytes currently held by the crate (C17)
    Repeat { times: u32, body: Vec<Op>, sample_after: Vec<u32> },
    /// record the bytes currently held by the crate
    MemSample,
}

#[derive(Clone, Debug, PartialEq, Eq, Hash, Serialize, Deserialize)]
pub struct Prog {
    pub ops: Vec<Op>,
    /// hand remaining handles back to the joiner instead of dropping them at the end
    pub ret: bool,
}

#[derive(Clone, Debug, PartialEq, Eq, Serialize, Deserialize)]
pub struct ExecOpts {
    pub weak_cas: bool,
    pub quarantine: bool,
    /// compare every call with the sequential model (single-threaded scenarios only)
    pub model: bool,
    /// run every API call solo with this step bound: base + per_spin * (try_spins + yield_spins)
    pub solo_base: Option<u64>,
    pub solo_per_spin: u64,
    pub max_steps: u64,
    /// step bound of the solo-run probes (C18)
    #[serde(default = "default_probe_bound")]
    pub probe_bound: u64,
    /// account the crate's heap allocations (C17)
    #[serde(default)]
    pub mem: bool,
    /// do not store the call log (very long churn runs)
    #[serde(default)]
    pub no_log: bool,
    /// bit (p mod 16) set: the handles program p still owns when it ends are dropped by the
    /// unwinding of a panic (the thread "dies") instead of by a normal return
    #[serde(default)]
    pub unwind_end: u16,
    /// every try operation is bound to `probe_bound` own scheduling points in a row without a
    /// change by another thread (C18 outside the solo-run probes)
    #[serde(default)]
    pub try_quiet: bool,
    /// the schedule bytes are reused cyclically (long concurrent churn runs)
    #[serde(default)]
    pub cyclic_schedule: bool,
    /// (managed thread id, k): suspend that thread for good at its k-th scheduling point
    #[serde(default)]
    pub freeze: Option<(usize, u64)>,
    /// the thread named by `freeze` is only held back until nobody else can make progress
    #[serde(default)]
    pub freeze_holds: bool,
    /// poll / start_send / poll_complete are bound to 400 + 60 * (spin counts) of their own
    /// scheduling points in a row without a change by another thread (C15: they never wait inside
    /// the call)
    #[serde(default)]
    pub fut_quiet: bool,
}

fn default_probe_bound() -> u64 {
    400
}

impl Default for ExecOpts {
    fn default() -> Self {
        ExecOpts {
            weak_cas: false,
            quarantine: false,
            model: false,
            solo_base: None,
            solo_per_spin: 0,
            max_steps: 40_000,
            probe_bound: 400,
            mem: false,
            no_log: false,
            unwind_end: 0,
            try_quiet: false,
            cyclic_schedule: false,
            freeze: None,
            freeze_holds: false,
            fut_quiet: false,
        }
    }
}

#[derive(Clone, Debug, PartialEq, Eq, Serialize, Deserialize)]
pub struct Scenario {
    pub q: QCfg,
    pub progs: Vec<Prog>,
    pub sched: Schedule,
    pub opts: ExecOpts,
}

#[derive(Clone, Copy, Debug, PartialEq, Eq, Hash, Serialize, Deserialize)]
pub enum CallKind {
    TrySend,
    StartSend,
    PollComplete,
    CloneTx,
    DropTx,
    UnsubTx,
    TryRecv,
    Recv,
    TryView,
    RecvView,
    TryIterNext,
    IterNext,
    Poll,
    AddStream,
    CloneRx,
    DropRx,
    UnsubRx,
    IntoSingle,
    IntoMulti,
    Transform,
}

impl CallKind {
    pub fn is_recv(&self) -> bool {
        matches!(
            self,
            CallKind::TryRecv
                | CallKind::Recv
                | CallKind::TryView
                | CallKind::RecvView
                | CallKind::TryIterNext
                | CallKind::IterNext
                | CallKind::Poll
        )
    }
    pub fn is_blocking_recv(&self) -> bool {
        matches!(self, CallKind::Recv | CallKind::RecvView | CallKind::IterNext)
    }
    pub fn is_send(&self) -> bool {
        matches!(self, CallKind::TrySend | CallKind::StartSend)
    }
    pub fn code(&self) -> u8 {
        *self as u8 + 1
    }
    pub fn from_code(c: u8) -> Option<CallKind> {
        const ALL: [CallKind; 20] = [
            CallKind::TrySend,
            CallKind::StartSend,
            CallKind::PollComplete,
            CallKind::CloneTx,
            CallKind::DropTx,
            CallKind::UnsubTx,
            CallKind::TryRecv,
            CallKind::Recv,
            CallKind::TryView,
            CallKind::RecvView,
            CallKind::TryIterNext,
            CallKind::IterNext,
            CallKind::Poll,
            CallKind::AddStream,
            CallKind::CloneRx,
            CallKind::DropRx,
            CallKind::UnsubRx,
            CallKind::IntoSingle,
            CallKind::IntoMulti,
            CallKind::Transform,
        ];
        if c == 0 {
            None
        } else {
            ALL.get(c as usize - 1).copied()
        }
    }
}

#[derive(Clone, Debug, PartialEq, Eq, Serialize, Deserialize)]
pub enum Res {
    /// outcome and id of the value the call tried to send
    Send(SendOut, u64),
    Recv(RecvOut),
    Bool(Option<bool>),
    NewHandle { handle: u32, stream: u32 },
    Converted(bool),
    Unit,
}

#[derive(Clone, Debug, PartialEq, Eq, Serialize, Deserialize)]
pub struct Call {
    /// program (logical thread) that made the call
    pub prog: u8,
    pub op_idx: u32,
    pub kind: CallKind,
    pub handle: u32,
    pub stream: u32,
    pub t0: u64,
    pub t1: u64,
    pub res: Res,
    /// kind of receiver handle (receiver calls only)
    pub rxk: Option<RxKind>,
}

#[derive(Clone, Debug, PartialEq, Eq, Serialize, Deserialize)]
pub struct Violation {
    pub kind: String,
    pub detail: String,
}

#[derive(Clone, Debug, Default, Serialize, Deserialize)]
pub struct Stats {
    #[serde(default)]
    pub unwinding_drops: u64,
    pub skipped_ops: u64,
    pub excluded_known: u64,
    pub probes: u64,
    pub probes_with_frozen_midcall: u64,
    pub max_probe_steps: u64,
    pub sends_full_then_ok: u64,
    pub not_ready_send: u64,
    pub not_ready_poll: u64,
    pub parked: u64,
    pub poll_unwritten: u64,
    /// (label, live bytes, live blocks) samples taken by MemSample / Repeat
    pub mem_samples: Vec<(u32, i64, i64)>,
    /// calls completed by every program when each sample was taken
    pub calls_by_prog_at_sample: Vec<Vec<u64>>,
    pub calls_by_prog: Vec<u64>,
    pub calls_made: u64,
    /// values whose send call had begun but not returned when the execution ended (torn down)
    pub inflight_sends: Vec<u64>,
    /// (stream, start time) of receive calls that had begun but not returned at that moment
    pub inflight_recvs: Vec<(u32, u64)>,
    /// (handle is a receiver, handle, stream, start time) of drop / unsubscribe calls that had begun
    /// but not returned at that moment
    #[serde(default)]
    pub inflight_drops: Vec<(bool, u32, u32, u64)>,
}

pub struct TxH {
    pub tx: Tx,
    pub id: u32,
}

pub struct RxH {
    pub rx: Rx,
    pub id: u32,
    pub stream: u32,
}

#[derive(Clone, Debug)]
struct ParkedTask {
    task: usize,
    /// Some(stream) = stream task, None = sink task
    stream: Option<u32>,
}

pub struct LogState {
    pub calls: Vec<Call>,
    pub viol: Vec<Violation>,
    pub stats: Stats,
    next_handle: u32,
    next_stream: u32,
    pub live_senders: i64,
    pub live_receivers: i64,
    delivered: Vec<u64>,
    value_gates: Vec<(u64, usize)>,
    returned: Vec<(u8, Vec<TxH>, Vec<RxH>)>,
    prog_tid: Vec<Option<usize>>,
    pub model: Option<Model>,
    parked: Vec<ParkedTask>,
    /// values ever accepted (for poll-of-unwritten-slot classification)
    pub accepted: u64,
}

pub struct Shared {
    pub sc: Scenario,
    pub log: Mutex<LogState>,
}

impl Shared {
    pub fn lock(&self) -> MutexGuard<'_, LogState> {
        self.log.lock().unwrap_or_else(|p| p.into_inner())
    }
}

/// selector that always picks the last table entry
fn sel_last() -> u16 {
    65535
}

fn pick(sel: u16, len: usize) -> Option<usize> {
    if len == 0 {
        None
    } else {
        Some((sel as usize * len) >> 16)
    }
}

pub struct Ctx {
    prog: u8,
    txs: Vec<TxH>,
    rxs: Vec<RxH>,
    seq: u32,
    op_idx: u32,
    sh: Arc<Shared>,
    spawned: Vec<u8>,
    sequential: bool,
    /// ids of this thread's accepted values, in order
    accepted_ids: Vec<u64>,
}

impl Ctx {
    fn tick(&self) -> u64 {
        sched().tick()
    }

    fn task_id_rx(&self, h: u32) -> usize {
        if self.sequential {
            TASK_ID_BASE + h as usize
        } else {
            crate::rt::current_tid().unwrap_or(0)
        }
    }

    fn solo_bound(&self) -> Option<u64> {
        let o = &self.sh.sc.opts;
        o.solo_base.map(|b| {
            let (a, y) = self.sh.sc.q.spins();
            b + o.solo_per_spin * (a + y)
        })
    }

    /// Runs one API call: sets the activity label, takes the logical timestamps, logs the call,
    /// feeds the sequential model.
    fn call<R, F: FnOnce(&mut Ctx) -> (R, Res)>(
        &mut self,
        kind: CallKind,
        handle: u32,
        stream: u32,
        rxk: Option<RxKind>,
        f: F,
    ) -> R {
        sched().set_activity(Act {
            kind: kind.code(),
            handle,
            stream,
            op_idx: self.op_idx,
        });
        let t0 = self.tick();
        if kind.is_recv() {
            self.sh.lock().stats.inflight_recvs.push((stream, t0));
        }
        let removal = match kind {
            CallKind::DropRx | CallKind::UnsubRx => Some(true),
            CallKind::DropTx | CallKind::UnsubTx => Some(false),
            _ => None,
        };
        if let Some(is_rx) = removal {
            self.sh.lock().stats.inflight_drops.push((is_rx, handle, stream, t0));
        }
        let (r, res) = {
            let _count = crate::mem::Count::on();
            match self.solo_bound() {
                Some(b) => sched().solo(b, || f(self)),
                None => f(self),
            }
        };
        let t1 = self.tick();
        sched().set_activity(Act::default());
        if let Some(is_rx) = removal {
            let mut l = self.sh.lock();
            if let Some(p) = l.stats.inflight_drops.iter().rposition(|x| *x == (is_rx, handle, stream, t0)) {
                l.stats.inflight_drops.swap_remove(p);
            }
        }
        if kind.is_recv() {
            let mut l = self.sh.lock();
            if let Some(p) = l.stats.inflight_recvs.iter().rposition(|x| *x == (stream, t0)) {
                l.stats.inflight_recvs.swap_remove(p);
            }
        }
        self.log_call(Call {
            prog: self.prog,
            op_idx: self.op_idx,
            kind,
            handle,
            stream,
            t0,
            t1,
            res,
            rxk,
        });
        r
    }

    fn log_call(&mut self, c: Call) {
        log_call_sh(&self.sh, c);
    }

    fn violation(&self, kind: &str, detail: String) {
        let mut l = self.sh.lock();
        if l.viol.len() < 8 {
            l.viol.push(Violation {
                kind: kind.into(),
                detail,
            });
        }
    }

    fn new_value(&mut self) -> Tracked {
        let id = ((self.prog as u64) << 32) | self.seq as u64;
        self.seq += 1;
        Tracked::new(id)
    }

    fn skip(&self) {
        self.sh.lock().stats.skipped_ops += 1;
    }

    // ---- sender operations ---------------------------------------------------------------

    fn do_try_send(&mut self, i: usize, v: Tracked) -> (SendOut, Option<Tracked>) {
        let (hid, orig) = (self.txs[i].id, v.seen());
        self.sh.lock().stats.inflight_sends.push(orig.id);
        let r = self.call(CallKind::TrySend, hid, u32::MAX, None, move |c| {
            let (out, back) = c.txs[i].tx.try_send(v);
            ((out, back), Res::Send(out, orig.id))
        });
        self.check_handback(orig, &r.0);
        if r.0 == SendOut::Ok {
            self.accepted_ids.push(orig.id);
        }
        self.send_finished(orig.id);
        r
    }

    fn send_finished(&self, id: u64) {
        let mut l = self.sh.lock();
        if let Some(p) = l.stats.inflight_sends.iter().rposition(|x| *x == id) {
            l.stats.inflight_sends.swap_remove(p);
        }
    }

    fn do_start_send(&mut self, i: usize, v: Tracked, by_ref: bool) -> (SendOut, Option<Tracked>) {
        let (hid, orig) = (self.txs[i].id, v.seen());
        let task = if self.sequential {
            TASK_ID_BASE + hid as usize
        } else {
            crate::rt::current_tid().unwrap_or(0)
        };
        let fut = self.txs[i].tx.is_futures();
        let kind = if fut { CallKind::StartSend } else { CallKind::TrySend };
        self.sh.lock().stats.inflight_sends.push(orig.id);
        let r = self.call(kind, hid, u32::MAX, None, move |c| {
            let (out, back) = c.txs[i].tx.start_send(v, task, by_ref);
            ((out, back), Res::Send(out, orig.id))
        });
        self.check_handback(orig, &r.0);
        if matches!(r.0, SendOut::NotReady(_)) {
            self.sh.lock().stats.not_ready_send += 1;
        }
        if r.0 == SendOut::Ok {
            self.accepted_ids.push(orig.id);
        }
        self.send_finished(orig.id);
        r
    }

    fn check_handback(&self, orig: Seen, out: &SendOut) {
        match out {
            SendOut::Ok => {}
            SendOut::Full(s) | SendOut::Disc(s) | SendOut::NotReady(s) | SendOut::Err(s) => {
                if *s != orig {
                    self.violation(
                        "HandBackMismatch",
                        format!("send of {:?} handed back {:?}", orig, s),
                    );
                }
            }
        }
    }

    fn drop_tx(&mut self, i: usize, unsub: bool, unwinding: bool) {
        if unwinding {
            self.sh.lock().stats.unwinding_drops += 1;
        }
        let h = self.txs.remove(i);
        let kind = if unsub { CallKind::UnsubTx } else { CallKind::DropTx };
        self.call(kind, h.id, u32::MAX, None, move |_| {
            if unsub {
                h.tx.unsubscribe();
            } else if unwinding {
                drop_while_unwinding(h);
            } else {
                drop(h);
            }
            ((), Res::Unit)
        });
    }

    // ---- receiver operations -------------------------------------------------------------

    fn recv_call<F: FnOnce(&mut Rx) -> RecvOut>(&mut self, i: usize, kind: CallKind, f: F) -> RecvOut {
        let (hid, stream, rxk) = (self.rxs[i].id, self.rxs[i].stream, self.rxs[i].rx.kind());
        self.call(kind, hid, stream, Some(rxk), move |c| {
            let out = f(&mut c.rxs[i].rx);
            (out, Res::Recv(out))
        })
    }

    fn do_try_recv(&mut self, i: usize) -> RecvOut {
        self.recv_call(i, CallKind::TryRecv, |rx| rx.try_recv())
    }

    fn do_recv(&mut self, i: usize) -> RecvOut {
        self.recv_call(i, CallKind::Recv, |rx| rx.recv())
    }

    fn do_try_view(&mut self, i: usize) -> RecvOut {
        if self.rxs[i].rx.has_view() {
            self.recv_call(i, CallKind::TryView, |rx| rx.try_view().unwrap())
        } else {
            self.do_try_recv(i)
        }
    }

    fn do_recv_view(&mut self, i: usize) -> RecvOut {
        if self.rxs[i].rx.has_view() {
            self.recv_call(i, CallKind::RecvView, |rx| rx.recv_view().unwrap())
        } else {
            self.do_recv(i)
        }
    }

    fn do_poll(&mut self, i: usize, by_ref: bool) -> RecvOut {
        if !self.rxs[i].rx.is_futures() {
            return self.do_try_recv(i);
        }
        let task = self.task_id_rx(self.rxs[i].id);
        let out = self.recv_call(i, CallKind::Poll, move |rx| rx.poll(task, by_ref).unwrap());
        if out == RecvOut::Empty {
            let mut l = self.sh.lock();
            l.stats.not_ready_poll += 1;
            if (l.accepted as usize) < self.sh.sc.q.n() {
                l.stats.poll_unwritten += 1;
            }
        }
        out
    }

    /// may a blocking receive be issued now?  (sequential engine: only when it will return)
    fn blocking_ok(&self, i: usize) -> bool {
        if !self.sequential {
            return true;
        }
        let l = self.sh.lock();
        match l.model.as_ref() {
            Some(m) => m.recv_would_return(self.rxs[i].stream),
            None => false,
        }
    }

    fn stream_next(&mut self, i: usize) -> RecvOut {
        loop {
            match self.do_poll(i, false) {
                RecvOut::Empty => {
                    if self.sequential || !self.rxs[i].rx.is_futures() {
                        return RecvOut::Empty;
                    }
                    sched().set_activity(Act {
                        kind: crate::oracles::ACT_PARKED_STREAM,
                        handle: self.rxs[i].id,
                        stream: self.rxs[i].stream,
                        op_idx: self.op_idx,
                    });
                    sched().park();
                    sched().set_activity(Act::default());
                }
                o => return o,
            }
        }
    }

    fn drop_rx(&mut self, i: usize, unsub: bool, unwinding: bool) {
        if unwinding {
            self.sh.lock().stats.unwinding_drops += 1;
        }
        let h = self.rxs.remove(i);
        let kind = if unsub { CallKind::UnsubRx } else { CallKind::DropRx };
        let rxk = h.rx.kind();
        self.call(kind, h.id, h.stream, Some(rxk), move |_| {
            if unsub {
                let b = h.rx.unsubscribe();
                ((), Res::Bool(b))
            } else if unwinding {
                drop_while_unwinding(h);
                ((), Res::Unit)
            } else {
                drop(h);
                ((), Res::Unit)
            }
        });
    }

    /// callback that logs every `next()` of an iterator as its own call, as it happens
    fn iter_emitter(
        &self,
        hid: u32,
        stream: u32,
        rxk: RxKind,
        kind: CallKind,
        last_t1: Arc<std::sync::atomic::AtomicU64>,
    ) -> impl FnMut(Option<Seen>, u64, u64) {
        let sh = self.sh.clone();
        let (prog, op_idx) = (self.prog, self.op_idx);
        move |it, t0, t1| {
            let _nc = crate::mem::NoCount::new();
            last_t1.store(t1, std::sync::atomic::Ordering::Relaxed);
            let res = match it {
                Some(s) => RecvOut::Val(s),
                None => RecvOut::End,
            };
            log_call_sh(
                &sh,
                Call {
                    prog,
                    op_idx,
                    kind,
                    handle: hid,
                    stream,
                    t0,
                    t1,
                    res: Res::Recv(res),
                    rxk: Some(rxk),
                },
            );
        }
    }

    fn drain(&mut self, i: usize, how: DrainHow, extra: u8) {
        let how = match how {
            DrainHow::View if !self.rxs[i].rx.has_view() => DrainHow::Blocking,
            DrainHow::Poll if !self.rxs[i].rx.is_futures() => DrainHow::Try,
            DrainHow::Iter if !self.rxs[i].rx.has_iter() => DrainHow::Blocking,
            h => h,
        };
        if how == DrainHow::Iter {
            let h = self.rxs.remove(i);
            let (hid, stream, rxk) = (h.id, h.stream, h.rx.kind());
            sched().set_activity(Act {
                kind: CallKind::IterNext.code(),
                handle: hid,
                stream,
                op_idx: self.op_idx,
            });
            let last_t1 = Arc::new(std::sync::atomic::AtomicU64::new(self.tick()));
            let mut emit = self.iter_emitter(hid, stream, rxk, CallKind::IterNext, last_t1.clone());
            {
                let _count = crate::mem::Count::on();
                if h.rx.into_iter_take(usize::MAX, extra, &|| sched().tick(), &mut emit).is_err() {
                    unreachable!();
                }
            }
            sched().set_activity(Act::default());
            // the iterator owned the handle: it is gone now
            let t = self.tick();
            self.log_call(Call {
                prog: self.prog,
                op_idx: self.op_idx,
                kind: CallKind::DropRx,
                handle: hid,
                stream,
                // the iterator (and with it the handle) was dropped somewhere between the end of
                // its last next() and now
                t0: last_t1.load(std::sync::atomic::Ordering::Relaxed),
                t1: t,
                res: Res::Unit,
                rxk: Some(rxk),
            });
            return;
        }
        loop {
            let out = match how {
                DrainHow::Try => self.do_try_recv(i),
                DrainHow::Blocking => self.do_recv(i),
                DrainHow::View => self.do_recv_view(i),
                DrainHow::Poll => self.stream_next(i),
                DrainHow::Iter => unreachable!(),
            };
            match out {
                RecvOut::Val(_) => {}
                RecvOut::Empty => {
                    sched().set_activity(Act {
                        kind: crate::oracles::ACT_TRY_DRAIN,
                        handle: self.rxs[i].id,
                        stream: self.rxs[i].stream,
                        op_idx: self.op_idx,
                    });
                    sched().harness_yield();
                    sched().set_activity(Act::default());
                }
                RecvOut::End => break,
            }
        }
        for k in 0..extra {
            match (how, k % 2) {
                (DrainHow::Poll, _) => {
                    self.do_poll(i, true);
                }
                (DrainHow::View, 0) => {
                    self.do_try_view(i);
                }
                (_, 0) => {
                    self.do_try_recv(i);
                }
                (DrainHow::View, _) => {
                    self.do_recv_view(i);
                }
                _ => {
                    self.do_recv(i);
                }
            }
        }
    }

    // ---- the interpreter -----------------------------------------------------------------

    pub fn exec(&mut self, op: &Op) {
        match op {
            Op::TrySend { tx } => match pick(*tx, self.txs.len()) {
                Some(i) => {
                    let v = self.new_value();
                    let (_, back) = self.do_try_send(i, v);
                    drop(back);
                }
                None => self.skip(),
            },
            Op::Send { tx, max } => match pick(*tx, self.txs.len()) {
                Some(i) => {
                    let mut v = self.new_value();
                    let mut attempts = 0u32;
                    loop {
                        let (out, back) = self.do_try_send(i, v);
                        match out {
                            SendOut::Ok => {
                                if attempts > 0 {
                                    self.sh.lock().stats.sends_full_then_ok += 1;
                                }
                                break;
                            }
                            SendOut::Full(_) | SendOut::NotReady(_) => {
                                attempts += 1;
                                v = back.unwrap();
                                if *max > 0 && attempts >= *max as u32 {
                                    break;
                                }
                                if self.sh.lock().live_receivers <= 0 {
                                    break;
                                }
                                sched().set_activity(Act {
                                    kind: crate::oracles::ACT_SEND_RETRY,
                                    handle: self.txs[i].id,
                                    stream: u32::MAX,
                                    op_idx: self.op_idx,
                                });
                                sched().harness_yield();
                                sched().set_activity(Act::default());
                            }
                            _ => break,
                        }
                    }
                }
                None => self.skip(),
            },
            Op::StartSend { tx, by_ref } => match pick(*tx, self.txs.len()) {
                Some(i) => {
                    let v = self.new_value();
                    let (_, back) = self.do_start_send(i, v, *by_ref);
                    drop(back);
                }
                None => self.skip(),
            },
            Op::SinkSend { tx } => match pick(*tx, self.txs.len()) {
                Some(i) => {
                    let mut v = self.new_value();
                    loop {
                        let (out, back) = self.do_start_send(i, v, false);
                        match out {
                            SendOut::NotReady(_) if !self.sequential => {
                                v = back.unwrap();
                                sched().set_activity(Act {
                                    kind: crate::oracles::ACT_PARKED_SINK,
                                    handle: self.txs[i].id,
                                    stream: u32::MAX,
                                    op_idx: self.op_idx,
                                });
                                sched().park();
                                sched().set_activity(Act::default());
                            }
                            SendOut::Full(_) if !self.sequential => {
                                v = back.unwrap();
                                if self.sh.lock().live_receivers <= 0 {
                                    break;
                                }
                                sched().harness_yield();
                            }
                            _ => break,
                        }
                    }
                }
                None => self.skip(),
            },
            Op::PollComplete { tx } => match pick(*tx, self.txs.len()) {
                Some(i) if self.txs[i].tx.is_futures() => {
                    let hid = self.txs[i].id;
                    let task = if self.sequential {
                        TASK_ID_BASE + hid as usize
                    } else {
                        crate::rt::current_tid().unwrap_or(0)
                    };
                    self.call(CallKind::PollComplete, hid, u32::MAX, None, move |c| {
                        let b = c.txs[i].tx.poll_complete(task);
                        ((), Res::Bool(Some(b)))
                    });
                }
                _ => self.skip(),
            },
            Op::CloneTx { tx } => match pick(*tx, self.txs.len()) {
                Some(i) if self.txs.len() < 6 => {
                    let hid = self.txs[i].id;
                    let nid = {
                        let mut l = self.sh.lock();
                        l.next_handle += 1;
                        l.next_handle - 1
                    };
                    let t = self.call(CallKind::CloneTx, hid, u32::MAX, None, move |c| {
                        let t = c.txs[i].tx.dup();
                        (t, Res::NewHandle { handle: nid, stream: u32::MAX })
                    });
                    self.txs.push(TxH { tx: t, id: nid });
                }
                _ => self.skip(),
            },
            Op::DropTx { tx } => match pick(*tx, self.txs.len()) {
                Some(i) => self.drop_tx(i, false, false),
                None => self.skip(),
            },
            Op::DropTxUnw { tx } => match pick(*tx, self.txs.len()) {
                Some(i) => self.drop_tx(i, false, true),
                None => self.skip(),
            },
            Op::UnsubTx { tx } => match pick(*tx, self.txs.len()) {
                Some(i) => self.drop_tx(i, true, false),
                None => self.skip(),
            },
            Op::TryRecv { rx } => match pick(*rx, self.rxs.len()) {
                Some(i) => {
                    self.do_try_recv(i);
                }
                None => self.skip(),
            },
            Op::Recv { rx } => match pick(*rx, self.rxs.len()) {
                Some(i) if self.blocking_ok(i) => {
                    self.do_recv(i);
                }
                Some(i) => {
                    self.do_try_recv(i);
                }
                None => self.skip(),
            },
            Op::TryView { rx } => match pick(*rx, self.rxs.len()) {
                Some(i) => {
                    self.do_try_view(i);
                }
                None => self.skip(),
            },
            Op::RecvView { rx } => match pick(*rx, self.rxs.len()) {
                Some(i) if self.blocking_ok(i) => {
                    self.do_recv_view(i);
                }
                Some(i) => {
                    self.do_try_view(i);
                }
                None => self.skip(),
            },
            Op::TryIter { rx, max, variant } => match pick(*rx, self.rxs.len()) {
                Some(i) if self.rxs[i].rx.has_iter() => {
                    let (hid, stream, rxk) = (self.rxs[i].id, self.rxs[i].stream, self.rxs[i].rx.kind());
                    sched().set_activity(Act {
                        kind: CallKind::TryIterNext.code(),
                        handle: hid,
                        stream,
                        op_idx: self.op_idx,
                    });
                    let mut emit = self.iter_emitter(hid, stream, rxk, CallKind::TryIterNext, Arc::new(std::sync::atomic::AtomicU64::new(0)));
                    {
                        let _count = crate::mem::Count::on();
                        self.rxs[i]
                            .rx
                            .try_iter(*max as usize + 1, *variant, &|| sched().tick(), &mut emit)
                            .unwrap();
                    }
                    sched().set_activity(Act::default());
                }
                Some(i) => {
                    self.do_try_recv(i);
                }
                None => self.skip(),
            },
            Op::TryIterAcross { rx, tx, max, variant, clone_to } => match pick(*rx, self.rxs.len()) {
                Some(i) if self.rxs[i].rx.has_iter() && (*clone_to == 0 || self.rxs[i].rx.can_clone()) => {
                    // the receiver leaves the table while its iterator borrows it, so that the
                    // action in the middle can go through the interpreter as any other operation
                    let h = self.rxs.remove(i);
                    let (hid, stream, rxk) = (h.id, h.stream, h.rx.kind());
                    let act = Act { kind: CallKind::TryIterNext.code(), handle: hid, stream, op_idx: self.op_idx };
                    sched().set_activity(act);
                    let mut emit = self.iter_emitter(hid, stream, rxk, CallKind::TryIterNext, Arc::new(std::sync::atomic::AtomicU64::new(0)));
                    let send_op = Op::TrySend { tx: *tx };
                    let child = *clone_to;
                    {
                        let mut mid = |me: &Rx| {
                            // the interpreter's own work is not the crate's: only the calls it
                            // makes count (they open their own scope)
                            let _nc = crate::mem::NoCount::new();
                            if child == 0 {
                                self.exec(&send_op);
                            } else {
                                let nid = {
                                    let mut l = self.sh.lock();
                                    l.next_handle += 1;
                                    l.next_handle - 1
                                };
                                let sib = self.call(CallKind::CloneRx, hid, stream, Some(rxk), move |_| {
                                    let r = me.dup().unwrap();
                                    (r, Res::NewHandle { handle: nid, stream })
                                });
                                self.rxs.push(RxH { rx: sib, id: nid, stream });
                                self.exec(&Op::Spawn { prog: child, tx: vec![], rx: vec![65535] });
                            }
                            sched().set_activity(act);
                        };
                        let _count = crate::mem::Count::on();
                        let after = if child == 0 { 2 } else { 4 };
                        h.rx
                            .try_iter_across(*max as usize + 1, *variant, &|| sched().tick(), &mut emit, &mut mid, after, &|| {
                                if child != 0 {
                                    let _nc = crate::mem::NoCount::new();
                                    sched().harness_yield();
                                    sched().set_activity(act);
                                }
                            })
                            .unwrap();
                    }
                    sched().set_activity(Act::default());
                    self.rxs.insert(i.min(self.rxs.len()), h);
                }
                Some(i) => {
                    self.do_try_recv(i);
                }
                None => self.skip(),
            },
            Op::IntoIter { rx, max, variant } => match pick(*rx, self.rxs.len()) {
                Some(i) if self.rxs[i].rx.has_iter() => {
                    // number of next() calls that are guaranteed not to block
                    let max_calls = if self.sequential {
                        let l = self.sh.lock();
                        match l.model.as_ref() {
                            Some(m) => {
                                let avail = m.available(self.rxs[i].stream);
                                if m.senders == 0 {
                                    (*max as usize + 1).min(avail + 1)
                                } else {
                                    (*max as usize + 1).min(avail)
                                }
                            }
                            None => 0,
                        }
                    } else {
                        *max as usize + 1
                    };
                    let h = self.rxs.remove(i);
                    let (hid, stream, rxk) = (h.id, h.stream, h.rx.kind());
                    sched().set_activity(Act {
                        kind: CallKind::IterNext.code(),
                        handle: hid,
                        stream,
                        op_idx: self.op_idx,
                    });
                    let last_t1 = Arc::new(std::sync::atomic::AtomicU64::new(self.tick()));
            let mut emit = self.iter_emitter(hid, stream, rxk, CallKind::IterNext, last_t1.clone());
                    {
                        let _count = crate::mem::Count::on();
                        if h.rx.into_iter_take(max_calls, *variant, &|| sched().tick(), &mut emit).is_err() {
                            unreachable!();
                        }
                    }
                    sched().set_activity(Act::default());
                    let t = self.tick();
                    self.log_call(Call {
                        prog: self.prog,
                        op_idx: self.op_idx,
                        kind: CallKind::DropRx,
                        handle: hid,
                        stream,
                        t0: last_t1.load(std::sync::atomic::Ordering::Relaxed),
                        t1: t,
                        res: Res::Unit,
                        rxk: Some(rxk),
                    });
                }
                Some(i) => {
                    self.do_try_recv(i);
                }
                None => self.skip(),
            },
            Op::Poll { rx, by_ref } => match pick(*rx, self.rxs.len()) {
                Some(i) => {
                    self.do_poll(i, *by_ref);
                }
                None => self.skip(),
            },
            Op::StreamNext { rx } => match pick(*rx, self.rxs.len()) {
                Some(i) => {
                    self.stream_next(i);
                }
                None => self.skip(),
            },
            Op::AddStream { rx } => match pick(*rx, self.rxs.len()) {
                Some(i) if self.rxs[i].rx.can_add_stream() && self.rxs.len() < 8 => {
                    let (hid, stream, rxk) = (self.rxs[i].id, self.rxs[i].stream, self.rxs[i].rx.kind());
                    let (nid, nstream) = {
                        let mut l = self.sh.lock();
                        l.next_handle += 1;
                        l.next_stream += 1;
                        (l.next_handle - 1, l.next_stream - 1)
                    };
                    let r = self.call(CallKind::AddStream, hid, stream, Some(rxk), move |c| {
                        let r = c.rxs[i].rx.add_stream().unwrap();
                        (r, Res::NewHandle { handle: nid, stream: nstream })
                    });
                    self.rxs.push(RxH {
                        rx: r,
                        id: nid,
                        stream: nstream,
                    });
                }
                _ => self.skip(),
            },
            Op::CloneRx { rx } => match pick(*rx, self.rxs.len()) {
                Some(i) if self.rxs[i].rx.can_clone() && self.rxs.len() < 8 => {
                    let (hid, stream, rxk) = (self.rxs[i].id, self.rxs[i].stream, self.rxs[i].rx.kind());
                    let nid = {
                        let mut l = self.sh.lock();
                        l.next_handle += 1;
                        l.next_handle - 1
                    };
                    let r = self.call(CallKind::CloneRx, hid, stream, Some(rxk), move |c| {
                        let r = c.rxs[i].rx.dup().unwrap();
                        (r, Res::NewHandle { handle: nid, stream })
                    });
                    self.rxs.push(RxH { rx: r, id: nid, stream });
                }
                _ => self.skip(),
            },
            Op::DropRx { rx } => match pick(*rx, self.rxs.len()) {
                Some(i) => self.drop_rx(i, false, false),
                None => self.skip(),
            },
            Op::DropRxUnw { rx } => match pick(*rx, self.rxs.len()) {
                Some(i) => self.drop_rx(i, false, true),
                None => self.skip(),
            },
            Op::UnsubRx { rx } => match pick(*rx, self.rxs.len()) {
                Some(i) => self.drop_rx(i, true, false),
                None => self.skip(),
            },
            Op::IntoSingle { rx } => match pick(*rx, self.rxs.len()) {
                Some(i) if !self.rxs[i].rx.is_uni() => {
                    let h = self.rxs.remove(i);
                    let (hid, stream, rxk) = (h.id, h.stream, h.rx.kind());
                    let r = self.call(CallKind::IntoSingle, hid, stream, Some(rxk), move |_| {
                        let r = h.rx.into_single();
                        let ok = r.is_ok();
                        (r, Res::Converted(ok))
                    });
                    let rx = match r {
                        Ok(x) => x,
                        Err(x) => x,
                    };
                    self.rxs.insert(i, RxH { rx, id: hid, stream });
                }
                _ => self.skip(),
            },
            Op::IntoMulti { rx } => match pick(*rx, self.rxs.len()) {
                Some(i) if self.rxs[i].rx.is_uni() => {
                    let h = self.rxs.remove(i);
                    let (hid, stream, rxk) = (h.id, h.stream, h.rx.kind());
                    let r = self.call(CallKind::IntoMulti, hid, stream, Some(rxk), move |_| {
                        let r = h.rx.into_multi();
                        (r, Res::Converted(true))
                    });
                    let rx = match r {
                        Ok(x) => x,
                        Err(x) => x,
                    };
                    self.rxs.insert(i, RxH { rx, id: hid, stream });
                }
                _ => self.skip(),
            },
            Op::Transform { rx } => match pick(*rx, self.rxs.len()) {
                Some(i) if matches!(self.rxs[i].rx.kind(), RxKind::BFU | RxKind::MFU) => {
                    let h = self.rxs.remove(i);
                    let (hid, stream, rxk) = (h.id, h.stream, h.rx.kind());
                    let r = self.call(CallKind::Transform, hid, stream, Some(rxk), move |_| {
                        let r = h.rx.transform();
                        (r, Res::Converted(true))
                    });
                    let rx = match r {
                        Ok(x) => x,
                        Err(x) => x,
                    };
                    self.rxs.insert(i, RxH { rx, id: hid, stream });
                }
                _ => self.skip(),
            },
            Op::Drain { rx, how, extra } => match pick(*rx, self.rxs.len()) {
                Some(i) => self.drain(i, *how, *extra),
                None => self.skip(),
            },
            Op::RecvN { rx, k, view } => match pick(*rx, self.rxs.len()) {
                Some(i) => {
                    for _ in 0..*k {
                        let out = if self.rxs[i].rx.is_futures() && !*view {
                            self.stream_next(i)
                        } else if *view {
                            self.do_recv_view(i)
                        } else {
                            self.do_recv(i)
                        };
                        if out == RecvOut::End {
                            break;
                        }
                    }
                }
                None => self.skip(),
            },
            Op::Spawn { prog, tx, rx } => {
                let p = *prog as usize;
                let already = self.sh.lock().prog_tid.get(p).map(|x| x.is_some()).unwrap_or(true);
                if p == 0 || p >= self.sh.sc.progs.len() || already {
                    self.skip();
                    return;
                }
                let mut txs = Vec::new();
                for s in tx {
                    if let Some(i) = pick(*s, self.txs.len()) {
                        txs.push(self.txs.remove(i));
                    }
                }
                let mut rxs = Vec::new();
                for s in rx {
                    if let Some(i) = pick(*s, self.rxs.len()) {
                        rxs.push(self.rxs.remove(i));
                    }
                }
                let sh = self.sh.clone();
                let sequential = self.sequential;
                let prog_no = *prog;
                let tid = sched().spawn(move || {
                    let mut c = Ctx {
                        prog: prog_no,
                        txs,
                        rxs,
                        seq: 0,
                        op_idx: 0,
                        sh,
                        spawned: Vec::new(),
                        sequential,
                        accepted_ids: Vec::new(),
                    };
                    c.run_prog();
                });
                self.sh.lock().prog_tid[p] = Some(tid);
                self.spawned.push(*prog);
            }
            Op::Join { prog } => self.join(*prog),
            Op::JoinAll => {
                let all: Vec<u8> = self.spawned.clone();
                for p in all {
                    self.join(p);
                }
            }
            Op::WaitDelivered { seq } => {
                // the seq-th value of this thread that was accepted (counted from the end: 0 = the latest)
                let k = *seq as usize;
                if k < self.accepted_ids.len() {
                    let id = self.accepted_ids[self.accepted_ids.len() - 1 - k];
                    let g = {
                        let mut l = self.sh.lock();
                        if l.delivered.contains(&id) {
                            None
                        } else {
                            let g = sched().new_gate();
                            l.value_gates.push((id, g));
                            Some(g)
                        }
                    };
                    if let Some(g) = g {
                        sched().gate_wait(g);
                    }
                } else {
                    self.skip();
                }
            }
            Op::Yield => sched().harness_yield(),
            Op::WithCloneTx { tx, sends } => match pick(*tx, self.txs.len()) {
                Some(i) if self.txs.len() < 6 => {
                    self.exec(&Op::CloneTx { tx: *tx });
                    let last = self.txs.len() - 1;
                    debug_assert!(last != i);
                    let s = sel_last();
                    for _ in 0..*sends {
                        self.exec(&Op::Send { tx: s, max: 3 });
                    }
                    self.drop_tx(last, false, false);
                }
                _ => self.skip(),
            },
            Op::WithCloneRx { rx, unsub } => match pick(*rx, self.rxs.len()) {
                Some(i) if self.rxs[i].rx.can_clone() && self.rxs.len() < 8 => {
                    self.exec(&Op::CloneRx { rx: *rx });
                    let last = self.rxs.len() - 1;
                    self.do_try_recv(last);
                    self.drop_rx(last, *unsub, false);
                }
                _ => self.skip(),
            },
            Op::WithNewStream { rx, unsub } => match pick(*rx, self.rxs.len()) {
                Some(i)
                    if self.rxs[i].rx.can_add_stream()
                        && self.sh.sc.q.flavour == crate::handles::Flavour::Broadcast
                        && self.rxs.len() < 8 =>
                {
                    let before = self.rxs.len();
                    self.exec(&Op::AddStream { rx: *rx });
                    if self.rxs.len() == before + 1 {
                        self.drop_rx(before, *unsub, false);
                    }
                }
                _ => self.skip(),
            },
            Op::ProbeTrySend { tx } => match pick(*tx, self.txs.len()) {
                Some(i) => {
                    let v = self.new_value();
                    let bound = self.sh.sc.opts.probe_bound;
                    let used0 = sched().now();
                    let (_, back) = sched().solo(bound, || self.do_try_send(i, v));
                    drop(back);
                    self.note_probe(sched().now() - used0);
                }
                None => self.skip(),
            },
            Op::ProbeTryRecv { rx } => match pick(*rx, self.rxs.len()) {
                Some(i) => {
                    let used0 = sched().now();
                    sched().solo(self.sh.sc.opts.probe_bound, || self.do_try_recv(i));
                    self.note_probe(sched().now() - used0);
                }
                None => self.skip(),
            },
            Op::ProbeTryView { rx } => match pick(*rx, self.rxs.len()) {
                Some(i) => {
                    let used0 = sched().now();
                    sched().solo(self.sh.sc.opts.probe_bound, || self.do_try_view(i));
                    self.note_probe(sched().now() - used0);
                }
                None => self.skip(),
            },
            Op::ProbeQuiescent => self.probe_quiescent(),
            Op::Repeat { times, body, sample_after } => {
                for k in 1..=*times {
                    for o in body {
                        self.exec(o);
                    }
                    if sample_after.contains(&k) {
                        self.mem_sample(k);
                    }
                }
            }
            Op::MemSample => self.mem_sample(0),
        }
    }

    fn mem_sample(&self, label: u32) {
        let (b, n) = crate::mem::live();
        let mut l = self.sh.lock();
        if l.stats.mem_samples.len() < 64 {
            l.stats.mem_samples.push((label, b, n));
            let snap = l.stats.calls_by_prog.clone();
            l.stats.calls_by_prog_at_sample.push(snap);
        }
    }

    fn note_probe(&self, _elapsed: u64) {
        let (mid, used) = sched().last_solo();
        let mut l = self.sh.lock();
        l.stats.probes += 1;
        if mid > 0 {
            l.stats.probes_with_frozen_midcall += 1;
        }
        if used > l.stats.max_probe_steps {
            l.stats.max_probe_steps = used;
        }
    }

    fn join(&mut self, prog: u8) {
        let tid = self.sh.lock().prog_tid.get(prog as usize).copied().flatten();
        if let Some(tid) = tid {
            sched().join(tid);
            let mut l = self.sh.lock();
            if let Some(p) = l.returned.iter().position(|(p, _, _)| *p == prog) {
                let (_, txs, rxs) = l.returned.swap_remove(p);
                drop(l);
                self.txs.extend(txs);
                self.rxs.extend(rxs);
            }
        } else {
            self.skip();
        }
    }

    /// C06 epilogue: fill to Full, drain every stream, refill from drained, drain again.
    /// Results are logged as ordinary calls; the oracle evaluates them from the log.
    fn probe_quiescent(&mut self) {
        if !self.txs.is_empty() && self.rxs.is_empty() {
            // every receiver has left: each sender is tried twice (the log is judged by the
            // no-receivers oracle: every one of these sends must be refused as Disconnected)
            for i in 0..self.txs.len() {
                let s = crate::gen::sel(i, self.txs.len());
                self.exec(&Op::TrySend { tx: s });
                self.exec(&Op::TrySend { tx: s });
            }
            return;
        }
        if self.txs.is_empty() || self.rxs.is_empty() {
            self.skip();
            return;
        }
        // marker: timestamps of the probe phases are recovered from op_idx
        let n = self.sh.sc.q.n();
        // phase 1: fill
        for _ in 0..(n + 1) {
            let v = self.new_value();
            let (out, back) = self.do_try_send(0, v);
            drop(back);
            if out != SendOut::Ok {
                break;
            }
        }
        // phase 2: drain every stream (one handle per stream is enough)
        self.drain_all_streams();
        // phase 3: refill from drained: exactly n accepted, then Full
        for _ in 0..(n + 1) {
            let v = self.new_value();
            let (out, back) = self.do_try_send(0, v);
            drop(back);
            if out != SendOut::Ok {
                break;
            }
        }
        // phase 4: drain again
        self.drain_all_streams();
    }

    fn drain_all_streams(&mut self) {
        let mut seen_streams: Vec<u32> = Vec::new();
        for i in 0..self.rxs.len() {
            let s = self.rxs[i].stream;
            if seen_streams.contains(&s) {
                continue;
            }
            seen_streams.push(s);
            let mut guard = 0;
            loop {
                let out = self.do_try_recv(i);
                guard += 1;
                if !matches!(out, RecvOut::Val(_)) || guard > 64 {
                    break;
                }
            }
        }
    }

    pub fn run_prog(&mut self) {
        let prog = self.sh.sc.progs[self.prog as usize].clone();
        for (k, op) in prog.ops.iter().enumerate() {
            self.op_idx = k as u32;
            self.exec(op);
        }
        self.op_idx = prog.ops.len() as u32;
        if prog.ret {
            let txs = std::mem::take(&mut self.txs);
            let rxs = std::mem::take(&mut self.rxs);
            self.sh.lock().returned.push((self.prog, txs, rxs));
        } else {
            let unw = (self.sh.sc.opts.unwind_end >> (self.prog % 16)) & 1 == 1;
            while !self.txs.is_empty() {
                self.drop_tx(0, false, unw);
            }
            while !self.rxs.is_empty() {
                self.drop_rx(0, false, unw);
            }
        }
    }
}

pub fn log_call_sh(sh: &Shared, c: Call) {
    let mut l = sh.lock();
    match (&c.kind, &c.res) {
        (_, Res::Send(SendOut::Ok, _)) => l.accepted += 1,
        (CallKind::CloneTx, _) => l.live_senders += 1,
        (CallKind::DropTx, _) | (CallKind::UnsubTx, _) => l.live_senders -= 1,
        (CallKind::CloneRx, _) | (CallKind::AddStream, _) => l.live_receivers += 1,
        (CallKind::DropRx, _) | (CallKind::UnsubRx, _) => l.live_receivers -= 1,
        _ => {}
    }
    if let Res::Recv(RecvOut::Val(s)) = &c.res {
        let id = s.id;
        if !l.delivered.contains(&id) {
            l.delivered.push(id);
        }
        let gates: Vec<usize> = l
            .value_gates
            .iter()
            .filter(|(v, _)| *v == id)
            .map(|(_, g)| *g)
            .collect();
        for g in gates {
            sched().gate_open(g);
        }
    }
    if l.model.is_some() {
        let r = l.model.as_mut().unwrap().on_call(&c);
        if let Err(e) = r {
            if l.viol.len() < 8 {
                l.viol.push(Violation {
                    kind: "ModelMismatch".into(),
                    detail: format!("op #{} {:?} on handle {} (stream {}): {}", c.op_idx, c.kind, c.handle, c.stream, e),
                });
            }
            // stop comparing after the first divergence: the model state is no longer meaningful
            l.model = None;
        } else {
            check_parked(&mut l, &c);
        }
    }
    l.stats.calls_made += 1;
    let p = c.prog as usize;
    if l.stats.calls_by_prog.len() <= p {
        l.stats.calls_by_prog.resize(p + 1, 0);
    }
    l.stats.calls_by_prog[p] += 1;
    if !sh.sc.opts.no_log {
        l.calls.push(c);
    }
}

/// Sequential part of C14: after a call that makes progress possible for a parked task, the
/// task must have been notified by the time the call returns.
fn check_parked(l: &mut LogState, c: &Call) {
    // register / unregister parked tasks
    match (&c.kind, &c.res) {
        (CallKind::Poll, Res::Recv(RecvOut::Empty)) => {
            let t = TASK_ID_BASE + c.handle as usize;
            handles::notified_take(t);
            l.parked.retain(|p| p.task != t);
            l.parked.push(ParkedTask {
                task: t,
                stream: Some(c.stream),
            });
            l.stats.parked += 1;
            return;
        }
        (CallKind::StartSend, Res::Send(SendOut::NotReady(_), _)) => {
            let t = TASK_ID_BASE + c.handle as usize;
            handles::notified_take(t);
            l.parked.retain(|p| p.task != t);
            l.parked.push(ParkedTask { task: t, stream: None });
            l.stats.parked += 1;
            return;
        }
        (CallKind::Poll, _) | (CallKind::StartSend, _) => {
            let t = TASK_ID_BASE + c.handle as usize;
            l.parked.retain(|p| p.task != t);
        }
        (CallKind::DropRx, _) | (CallKind::UnsubRx, _) | (CallKind::DropTx, _) | (CallKind::UnsubTx, _) => {
            // the handle (and with it its task) is gone
            let t = TASK_ID_BASE + c.handle as usize;
            l.parked.retain(|p| p.task != t);
        }
        _ => {}
    }
    let m = match l.model.as_ref() {
        Some(m) => m,
        None => return,
    };
    let mut still = Vec::new();
    let mut bad = Vec::new();
    for p in l.parked.iter() {
        let can_progress = match p.stream {
            Some(s) => m.recv_would_return(s),
            None => m.streams.is_empty() || !m.is_full(),
        };
        if can_progress {
            if handles::notified_take(p.task) {
                // notified: the task would poll again
            } else {
                bad.push(p.clone());
            }
        } else {
            still.push(p.clone());
        }
    }
    l.parked = still;
    for p in bad {
        if l.viol.len() < 8 {
            l.viol.push(Violation {
                kind: "ParkedNotNotified".into(),
                detail: format!(
                    "{} task of handle {} stayed parked without notification after op #{} {:?} on handle {} made progress possible",
                    if p.stream.is_some() { "stream" } else { "sink" },
                    p.task - TASK_ID_BASE,
                    c.op_idx,
                    c.kind,
                    c.handle
                ),
            });
        }
    }
}


#[derive(Clone, Debug, Serialize, Deserialize)]
pub struct Execution {
    pub outcome: Outcome,
    pub calls: Vec<Call>,
    pub viol: Vec<Violation>,
    pub ledger: LedgerSummary,
    pub stats: Stats,
    pub model_wrapped: bool,
    pub mem: MemReport,
}

#[derive(Clone, Debug, Default, Serialize, Deserialize)]
pub struct MemReport {
    pub enabled: bool,
    /// (bytes, blocks) attributed to the crate and live before the queue was created / after
    /// the last handle was dropped
    pub before: (i64, i64),
    pub after: (i64, i64),
    pub live_block_sizes: Vec<usize>,
}

/// Executes a scenario on the managed thread pool and returns everything the oracles need.
pub fn run_scenario(sc: &Scenario) -> Execution {
    // a broken crate may crash the process (a wild pointer followed before any hook sees it, an
    // abort on a corrupted value): the case is left on disk while it runs so that the driver can
    // report the crash together with the scenario that caused it (about 2 % of an execution's cost)
    use std::os::unix::fs::FileExt;
    thread_local! {
        static CRASH_FILE: std::cell::RefCell<Option<std::fs::File>> = std::cell::RefCell::new(
            std::env::var("MQV_CRASH_FILE").ok().and_then(|p| {
                std::fs::OpenOptions::new().create(true).write(true).truncate(true).open(p).ok()
            }),
        );
    }
    CRASH_FILE.with(|c| {
        if let Some(f) = c.borrow().as_ref() {
            let body = serde_json::to_vec(sc).unwrap_or_default();
            let _ = f.write_all_at(&body, 0);
            let _ = f.set_len(body.len() as u64);
        }
    });
    let ex = run_scenario_inner(sc);
    CRASH_FILE.with(|c| {
        if let Some(f) = c.borrow().as_ref() {
            let _ = f.set_len(0);
        }
    });
    ex
}

fn run_scenario_inner(sc: &Scenario) -> Execution {
    payload::ledger_reset();
    handles::notified_reset();
    let sequential = sc.opts.model;
    let sh = Arc::new(Shared {
        sc: sc.clone(),
        log: Mutex::new(LogState {
            calls: Vec::with_capacity(256),
            viol: Vec::new(),
            stats: Stats::default(),
            next_handle: 2,
            next_stream: 1,
            live_senders: 1,
            live_receivers: 1,
            delivered: Vec::new(),
            value_gates: Vec::new(),
            returned: Vec::new(),
            prog_tid: vec![None; sc.progs.len().max(1)],
            model: if sc.opts.model { Some(Model::new(sc.q.n())) } else { None },
            parked: Vec::new(),
            accepted: 0,
        }),
    });
    // default spin counts (50 + 50 attempts per call) make single calls thousands of read-only
    // points long: the stuck-state threshold and the step budget grow with them
    let (sa, sy) = sc.q.spins();
    // (with the crate's defaults of 50 + 50: 60 000 read-only points, 400 000 steps)
    let long_spins = sa + sy >= 50;
    let cfg = ExecCfg {
        schedule: sc.sched.clone(),
        // (freeze sweep: the threads that wait for the suspended one spin until this threshold in
        // every one of the ~10^5 executions; being stuck is no finding there, so it is kept short)
        livelock: if sc.opts.freeze.is_some() && !sc.opts.freeze_holds {
            1_500 + 40 * (sa + sy)
        } else if long_spins {
            600 * (sa + sy)
        } else {
            4_000
        },
        max_steps: if long_spins { sc.opts.max_steps.max(4_000 * (sa + sy)) } else { sc.opts.max_steps },
        weak_cas_fail: sc.opts.weak_cas,
        quarantine: sc.opts.quarantine,
        cyclic: sc.opts.cyclic_schedule,
        freeze: sc.opts.freeze,
        freeze_holds: sc.opts.freeze_holds,
        fut_quiet_bound: if sc.opts.fut_quiet && sc.q.futures { 400 + 60 * (sa + sy) } else { 0 },
        // only where C18 is stated: plain handles on a busy or yielding queue
        try_quiet_bound: if sc.opts.try_quiet
            && !sc.q.futures
            && !matches!(sc.q.wait, crate::handles::WaitKind::Block(..) | crate::handles::WaitKind::BlockDefault)
        {
            sc.opts.probe_bound
        } else {
            0
        },
        ..ExecCfg::default()
    };
    let sh2 = sh.clone();
    let q = sc.q;
    let mem_on = sc.opts.mem;
    crate::mem::enable(mem_on);
    let mem_before = crate::mem::live();
    let outcome = sched().run(cfg, move || {
        let (tx, rx) = {
            let _count = crate::mem::Count::on();
            create(&q)
        };
        sh2.lock().prog_tid[0] = Some(0);
        let mut c = Ctx {
            prog: 0,
            txs: vec![TxH { tx, id: 0 }],
            rxs: vec![RxH { rx, id: 1, stream: 0 }],
            seq: 0,
            op_idx: 0,
            sh: sh2.clone(),
            spawned: Vec::new(),
            sequential,
            accepted_ids: Vec::new(),
        };
        c.run_prog();
    });
    // handles returned by programs nobody joined are dropped here, outside the execution
    let leftovers = std::mem::take(&mut sh.lock().returned);
    drop(leftovers);
    let mem_after = crate::mem::live();
    let leaked_sizes = if mem_on && mem_after != mem_before {
        crate::mem::live_block_sizes(24)
    } else {
        Vec::new()
    };
    crate::mem::enable(false);
    let ledger = payload::ledger_summary();
    let mut l = sh.lock();
    Execution {
        outcome,
        calls: std::mem::take(&mut l.calls),
        viol: std::mem::take(&mut l.viol),
        ledger,
        stats: l.stats.clone(),
        model_wrapped: l.model.as_ref().map(|m| m.wrapped).unwrap_or(false),
        mem: MemReport {
            enabled: mem_on,
            before: mem_before,
            after: mem_after,
            live_block_sizes: leaked_sizes,
        },
    }
}
