//! Oracles over the call log of an execution.  None of them assumes a linearisation order: each
//! checks a necessary condition that every correct execution satisfies (arguments in DESIGN.md §4
//! and next to each function), so none can raise an alarm on a correct queue.

use crate::handles::{RecvOut, SendOut};
use crate::ops::{Call, CallKind, Execution, Res, Scenario};
use crate::rt::{Block, Verdict};
use serde::{Deserialize, Serialize};
use std::collections::{BTreeMap, BTreeSet};

pub const ACT_PARKED_STREAM: u8 = 100;
pub const ACT_PARKED_SINK: u8 = 101;
pub const ACT_SEND_RETRY: u8 = 102;
pub const ACT_TRY_DRAIN: u8 = 103;

#[derive(Clone, Debug, Serialize, Deserialize)]
pub struct Finding {
    pub kind: String,
    pub facts: BTreeMap<String, serde_json::Value>,
    pub detail: String,
}

impl Finding {
    pub fn new(kind: &str, detail: String) -> Finding {
        Finding {
            kind: kind.to_string(),
            facts: BTreeMap::new(),
            detail,
        }
    }
    pub fn fact<V: Into<serde_json::Value>>(mut self, k: &str, v: V) -> Finding {
        self.facts.insert(k.to_string(), v.into());
        self
    }
}

#[derive(Clone, Debug)]
pub struct Delivery {
    pub id: u64,
    pub t0: u64,
    pub t1: u64,
    pub handle: u32,
    pub prog: u8,
    pub kind: CallKind,
}

#[derive(Clone, Debug, Default)]
pub struct StreamInfo {
    pub id: u32,
    pub parent: Option<u32>,
    /// creation call interval (0,0 for the initial stream)
    pub c0: u64,
    pub c1: u64,
    /// number of live handles of the parent stream when the creating call began
    pub parent_handles_at_call: usize,
    pub deliveries: Vec<Delivery>,
    /// end reports (t0, t1, handle)
    pub ends: Vec<(u64, u64, u32, CallKind)>,
    /// non-end, non-value reports (Empty / NotReady)
    pub empties: Vec<(u64, u64, u32)>,
    /// handle id -> (creation t1, drop t0, drop t1)
    pub handles: BTreeMap<u32, (u64, u64, u64)>,
    pub created_by_add_stream_with_on_mpmc: bool,
}

#[derive(Clone, Debug)]
pub struct SendInfo {
    pub id: u64,
    pub t0: u64,
    pub t1: u64,
    pub prog: u8,
    pub handle: u32,
}

pub struct Hist<'a> {
    pub sc: &'a Scenario,
    pub ex: &'a Execution,
    pub n: usize,
    /// accepted sends by value id
    pub acc: BTreeMap<u64, SendInfo>,
    /// every refused attempt (value id, t0, t1)
    pub refused: Vec<(u64, u64, u64, SendOut)>,
    pub streams: BTreeMap<u32, StreamInfo>,
    /// sender handle id -> (creation t1, drop t0, drop t1); u64::MAX = never
    pub senders: BTreeMap<u32, (u64, u64, u64)>,
    pub t_end: u64,
}

const NEVER: u64 = u64::MAX;

impl<'a> Hist<'a> {
    pub fn build(sc: &'a Scenario, ex: &'a Execution) -> Hist<'a> {
        let mut h = Hist {
            sc,
            ex,
            n: sc.q.n(),
            acc: BTreeMap::new(),
            refused: Vec::new(),
            streams: BTreeMap::new(),
            senders: BTreeMap::new(),
            t_end: ex.outcome.steps,
        };
        h.senders.insert(0, (0, NEVER, NEVER));
        let mut s0 = StreamInfo::default();
        s0.handles.insert(1, (0, NEVER, NEVER));
        h.streams.insert(0, s0);
        for c in &ex.calls {
            match (&c.kind, &c.res) {
                (_, Res::Send(out, id)) => match out {
                    SendOut::Ok => {
                        h.acc.entry(*id).or_insert(SendInfo {
                            id: *id,
                            t0: c.t0,
                            t1: c.t1,
                            prog: c.prog,
                            handle: c.handle,
                        });
                    }
                    o => h.refused.push((*id, c.t0, c.t1, *o)),
                },
                (CallKind::CloneTx, Res::NewHandle { handle, .. }) => {
                    h.senders.insert(*handle, (c.t1, NEVER, NEVER));
                }
                (CallKind::DropTx, _) | (CallKind::UnsubTx, _) => {
                    if let Some(e) = h.senders.get_mut(&c.handle) {
                        e.1 = c.t0;
                        e.2 = c.t1;
                    }
                }
                (CallKind::AddStream, Res::NewHandle { handle, stream }) => {
                    let parent_handles = h
                        .streams
                        .get(&c.stream)
                        .map(|p| p.handles.values().filter(|(_, d0, _)| *d0 > c.t0).count())
                        .unwrap_or(0);
                    let mut s = StreamInfo {
                        id: *stream,
                        parent: Some(c.stream),
                        c0: c.t0,
                        c1: c.t1,
                        parent_handles_at_call: parent_handles,
                        ..Default::default()
                    };
                    s.created_by_add_stream_with_on_mpmc =
                        matches!(c.rxk, Some(crate::handles::RxKind::MFU));
                    s.handles.insert(*handle, (c.t1, NEVER, NEVER));
                    h.streams.insert(*stream, s);
                }
                (CallKind::CloneRx, Res::NewHandle { handle, stream }) => {
                    if let Some(s) = h.streams.get_mut(stream) {
                        s.handles.insert(*handle, (c.t1, NEVER, NEVER));
                    }
                }
                (CallKind::DropRx, _) | (CallKind::UnsubRx, _) => {
                    if let Some(s) = h.streams.get_mut(&c.stream) {
                        if let Some(e) = s.handles.get_mut(&c.handle) {
                            e.1 = c.t0;
                            e.2 = c.t1;
                        }
                    }
                }
                (k, Res::Recv(out)) if k.is_recv() => {
                    if let Some(s) = h.streams.get_mut(&c.stream) {
                        match out {
                            RecvOut::Val(v) => s.deliveries.push(Delivery {
                                id: v.id,
                                t0: c.t0,
                                t1: c.t1,
                                handle: c.handle,
                                prog: c.prog,
                                kind: *k,
                            }),
                            RecvOut::End if *k != CallKind::TryIterNext => {
                                s.ends.push((c.t0, c.t1, c.handle, *k))
                            }
                            // a non-blocking iterator stops on Empty and on the end alike: no information
                            RecvOut::End => {}
                            _ => s.empties.push((c.t0, c.t1, c.handle)),
                        }
                    }
                }
                _ => {}
            }
        }
        // removal calls that had begun but not returned when the execution was torn down: the
        // handle may already be gone, so it counts as alive only up to the start of that call
        for (is_rx, handle, stream, t0) in &ex.stats.inflight_drops {
            if *is_rx {
                if let Some(e) = h.streams.get_mut(stream).and_then(|s| s.handles.get_mut(handle)) {
                    e.1 = e.1.min(*t0);
                }
            } else if let Some(e) = h.senders.get_mut(handle) {
                e.1 = e.1.min(*t0);
            }
        }
        h
    }

    /// Range of the position (index in the global order of accepted values) at which stream `s`
    /// started: 0 for the initial stream; for a stream made by add_stream the parent's position
    /// at some instant of the creating call.
    pub fn start_range(&self, id: u32) -> (usize, usize) {
        let s = match self.streams.get(&id) {
            Some(s) => s,
            None => return (0, 0),
        };
        match s.parent {
            None => (0, 0),
            Some(p) => {
                let (plo, phi) = self.start_range(p);
                match self.streams.get(&p) {
                    Some(ps) => (
                        plo + ps.deliveries.iter().filter(|d| d.t1 < s.c0).count(),
                        phi + ps.deliveries.iter().filter(|d| d.t0 < s.c1).count(),
                    ),
                    None => (plo, phi),
                }
            }
        }
    }

    pub fn completed(&self) -> bool {
        self.ex.outcome.verdict == Verdict::Completed
    }

    /// values certainly destined to stream `s`: accepted by a send that began after the call
    /// creating `s` had returned
    pub fn required(&self, s: &StreamInfo) -> Vec<&SendInfo> {
        self.acc.values().filter(|v| v.t0 > s.c1).collect()
    }

    pub fn max_handles_on_a_stream(&self) -> usize {
        self.streams.values().map(|s| s.handles.len()).max().unwrap_or(0)
    }

    pub fn stream_alive_at(&self, s: &StreamInfo, t: u64) -> bool {
        s.c1 < t && s.handles.values().any(|(_, d0, _)| *d0 > t)
    }

    /// lower bound on the number of sender handles alive at time `t`
    pub fn senders_alive_lb(&self, t: u64) -> usize {
        self.senders
            .values()
            .filter(|(c1, d0, _)| *c1 <= t && *d0 > t)
            .count()
    }

    /// have all sender handles been dropped (drop call returned) by time `t`?
    pub fn all_senders_gone_by(&self, t: u64) -> bool {
        self.senders.values().all(|(_, _, d1)| *d1 <= t)
    }

    pub fn base_facts(&self, f: Finding) -> Finding {
        f.fact("flavour", format!("{:?}", self.sc.q.flavour))
            .fact("futures", self.sc.q.futures)
            .fact("n", self.n as u64)
            .fact("max_stream_handles", self.max_handles_on_a_stream() as u64)
            .fact("streams", self.streams.len() as u64)
            .fact(
                "mpmc_second_stream",
                self.streams.values().any(|s| s.created_by_add_stream_with_on_mpmc),
            )
            .fact("addstream_raced_by_sibling", self.addstream_raced_by_sibling())
    }

    /// the execution contains an add_stream call on a parent stream that had at least two live
    /// handles, with a sibling consumer of the parent receiving during the call (the trigger of
    /// known finding D8)
    pub fn addstream_raced_by_sibling(&self) -> bool {
        self.streams.values().any(|s| {
            s.parent_handles_at_call >= 2
                && s.parent
                    .and_then(|p| self.streams.get(&p))
                    .map(|ps| ps.deliveries.iter().any(|d| d.t0 < s.c1 && d.t1 > s.c0))
                    .unwrap_or(false)
        })
    }

    /// did a sibling consumer of the same stream commit a receive inside [t0,t1]?
    pub fn sibling_recv_overlaps(&self, s: &StreamInfo, handle: u32, t0: u64, t1: u64) -> bool {
        s.deliveries
            .iter()
            .any(|d| d.handle != handle && d.t0 < t1 && d.t1 > t0)
    }
}

// ---------------------------------------------------------------------------------------------
// C01: exactly-once delivery

pub fn delivery(h: &Hist) -> Vec<Finding> {
    let mut out = Vec::new();
    for s in h.streams.values() {
        let mut seen: BTreeSet<u64> = BTreeSet::new();
        for d in &s.deliveries {
            match h.acc.get(&d.id) {
                // a send that was still inside its call when the execution was torn down may have
                // published its value: nothing can be said about it
                None if h.ex.stats.inflight_sends.contains(&d.id) => {}
                None => {
                    let was_refused = h.refused.iter().any(|r| r.0 == d.id);
                    out.push(h.base_facts(Finding::new(
                        if was_refused { "DeliveredRefused" } else { "DeliveredInvented" },
                        format!(
                            "stream {} handle {} received value {:#x} which was {}",
                            s.id,
                            d.handle,
                            d.id,
                            if was_refused { "refused and handed back" } else { "never sent" }
                        ),
                    )));
                }
                Some(a) => {
                    if d.t1 < a.t0 {
                        out.push(h.base_facts(Finding::new(
                            "DeliveredBeforeSend",
                            format!(
                                "stream {} received value {:#x} at [{},{}] before its accepting send began at {}",
                                s.id, d.id, d.t0, d.t1, a.t0
                            ),
                        )));
                    }
                }
            }
            if !seen.insert(d.id) {
                out.push(
                    h.base_facts(Finding::new(
                        "Duplicate",
                        format!("stream {} delivered value {:#x} twice", s.id, d.id),
                    ))
                    .fact("stream_handles", s.handles.len() as u64),
                );
            }
        }
        // no loss: only for streams that were told the end (then nothing more can arrive)
        if h.completed() && !s.ends.is_empty() {
            let first_end_t1 = s.ends.iter().map(|e| e.1).min().unwrap();
            for v in h.required(s) {
                if !seen.contains(&v.id) {
                    out.push(
                        h.base_facts(Finding::new(
                            "Lost",
                            format!(
                                "value {:#x} accepted at [{},{}] (after stream {} was created at {}) was never delivered to stream {} although the stream was told the end at {}",
                                v.id, v.t0, v.t1, s.id, s.c1, s.id, first_end_t1
                            ),
                        ))
                        .fact("stream_handles", s.handles.len() as u64)
                        .fact("parent_handles_at_call", s.parent_handles_at_call as u64),
                    );
                    break;
                }
            }
        }
    }
    out
}

// ---------------------------------------------------------------------------------------------
// C02: one FIFO order.  Precedence graph over accepted values:
//   E1 a->b if send(a) returned before send(b) began
//   E2 a->b if some handle received a immediately before b
//   E3 a->b if on one stream recv(a) returned before recv(b) began
// In a correct execution the order in which positions were claimed satisfies all three, so the
// graph is acyclic.

pub fn order(h: &Hist) -> Vec<Finding> {
    let ids: Vec<u64> = h.acc.keys().copied().collect();
    let idx: BTreeMap<u64, usize> = ids.iter().enumerate().map(|(i, v)| (*v, i)).collect();
    let n = ids.len();
    let mut adj: Vec<Vec<(usize, &'static str)>> = vec![Vec::new(); n];
    let sends: Vec<&SendInfo> = h.acc.values().collect();
    for a in &sends {
        for b in &sends {
            if a.t1 < b.t0 {
                adj[idx[&a.id]].push((idx[&b.id], "send-before-send"));
            }
        }
    }
    for s in h.streams.values() {
        let mut by_handle: BTreeMap<u32, Vec<&Delivery>> = BTreeMap::new();
        for d in &s.deliveries {
            if idx.contains_key(&d.id) {
                by_handle.entry(d.handle).or_default().push(d);
            }
        }
        for ds in by_handle.values() {
            for w in ds.windows(2) {
                if w[0].id != w[1].id {
                    adj[idx[&w[0].id]].push((idx[&w[1].id], "same-consumer"));
                }
            }
        }
        for a in &s.deliveries {
            for b in &s.deliveries {
                if a.t1 < b.t0 && a.id != b.id && idx.contains_key(&a.id) && idx.contains_key(&b.id) {
                    adj[idx[&a.id]].push((idx[&b.id], "same-stream"));
                }
            }
        }
    }
    // cycle detection (iterative DFS with colours), reporting one cycle
    let mut colour = vec![0u8; n];
    let mut parent: Vec<Option<(usize, &'static str)>> = vec![None; n];
    for root in 0..n {
        if colour[root] != 0 {
            continue;
        }
        let mut stack: Vec<(usize, usize)> = vec![(root, 0)];
        colour[root] = 1;
        while let Some(&mut (u, ref mut k)) = stack.last_mut() {
            if *k < adj[u].len() {
                let (v, why) = adj[u][*k];
                *k += 1;
                if colour[v] == 0 {
                    colour[v] = 1;
                    parent[v] = Some((u, why));
                    stack.push((v, 0));
                } else if colour[v] == 1 {
                    // cycle v -> ... -> u -> v
                    let mut path = vec![format!("{:#x} -[{}]-> {:#x}", ids[u], why, ids[v])];
                    let mut cur = u;
                    while cur != v {
                        match parent[cur] {
                            Some((p, w)) => {
                                path.push(format!("{:#x} -[{}]-> {:#x}", ids[p], w, ids[cur]));
                                cur = p;
                            }
                            None => break,
                        }
                    }
                    path.reverse();
                    return vec![h.base_facts(Finding::new(
                        "OrderCycle",
                        format!("no single total order exists: {}", path.join(", ")),
                    ))];
                }
            } else {
                colour[u] = 2;
                stack.pop();
            }
        }
    }
    Vec::new()
}

// ---------------------------------------------------------------------------------------------
// C03: capacity bound.  For an accepted send x returning at t and a stream s that exists at t:
//   |{accepted sends returned by t that began after s was created}| - |{receives on s started by t}| <= N
// (argument in DESIGN.md §4 C03).

pub fn capacity(h: &Hist) -> Vec<Finding> {
    let mut out = Vec::new();
    for x in h.acc.values() {
        let t = x.t1;
        for s in h.streams.values() {
            if !h.stream_alive_at(s, t) || !(s.c1 < x.t0) {
                continue;
            }
            let sent = h.acc.values().filter(|v| v.t1 <= t && v.t0 > s.c1).count();
            // receives that had begun but never returned (execution torn down) count as begun
            let recvd = s.deliveries.iter().filter(|d| d.t0 <= t).count()
                + h.ex.stats.inflight_recvs.iter().filter(|(st, t0)| *st == s.id && *t0 <= t).count();
            if sent > recvd + h.n {
                out.push(
                    h.base_facts(Finding::new(
                        "CapacityExceeded",
                        format!(
                            "when the send of {:#x} returned at {}, {} values sent after stream {} existed had been accepted but only {} receives had started on it (N = {})",
                            x.id, t, sent, s.id, recvd, h.n
                        ),
                    ))
                    .fact("parent_handles_at_call", s.parent_handles_at_call as u64),
                );
                return out;
            }
        }
    }
    out
}

// ---------------------------------------------------------------------------------------------
// C07: sender disconnect

pub fn hangup(h: &Hist) -> Vec<Finding> {
    let mut out = Vec::new();
    // event times at which the lower bound of live senders can change
    let mut times: Vec<u64> = Vec::new();
    for (c1, d0, _) in h.senders.values() {
        times.push(*c1);
        if *d0 != NEVER {
            times.push(*d0);
        }
    }
    for s in h.streams.values() {
        for (e0, e1, eh, ek) in &s.ends {
            // (i) some sender alive during the whole call
            let mut min_lb = h.senders_alive_lb(*e0).min(h.senders_alive_lb(*e1));
            for t in times.iter().filter(|t| **t >= *e0 && **t <= *e1) {
                min_lb = min_lb.min(h.senders_alive_lb(*t));
                if *t > 0 {
                    min_lb = min_lb.min(h.senders_alive_lb(*t - 1));
                }
            }
            if min_lb >= 1 {
                out.push(
                    h.base_facts(Finding::new(
                        "EndWhileSenderAlive",
                        format!(
                            "stream {} handle {} was told the end by {:?} at [{},{}] while a sender handle was alive",
                            s.id, eh, ek, e0, e1
                        ),
                    ))
                    .fact("stream_handles", s.handles.len() as u64),
                );
                continue;
            }
            // (ii) an accepted value was still undelivered and not in flight
            for v in h.required(s) {
                if v.t1 < *e0 {
                    let d = s.deliveries.iter().find(|d| d.id == v.id);
                    let bad = match d {
                        // "never delivered" can only be said of an execution that ran to completion
                        None => h.completed(),
                        Some(d) => d.t0 > *e1,
                    };
                    if bad {
                        out.push(
                            h.base_facts(Finding::new(
                                "EndBeforeDrain",
                                format!(
                                    "stream {} handle {} was told the end at [{},{}] although value {:#x} (accepted at [{},{}]) {}",
                                    s.id,
                                    eh,
                                    e0,
                                    e1,
                                    v.id,
                                    v.t0,
                                    v.t1,
                                    match d {
                                        None => "was never delivered to the stream".to_string(),
                                        Some(d) => format!("was only received later, at [{},{}]", d.t0, d.t1),
                                    }
                                ),
                            ))
                            .fact("stream_handles", s.handles.len() as u64)
                            .fact("sibling_commit_inside_call", h.sibling_recv_overlaps(s, *eh, *e0, *e1)),
                        );
                        break;
                    }
                }
            }
            // (iii) stability
            for d in &s.deliveries {
                if d.t0 > *e1 {
                    out.push(
                        h.base_facts(Finding::new(
                            "EndNotStable",
                            format!(
                                "stream {} delivered {:#x} at [{},{}] after handle {} had been told the end at [{},{}]",
                                s.id, d.id, d.t0, d.t1, eh, e0, e1
                            ),
                        ))
                        .fact("stream_handles", s.handles.len() as u64)
                        .fact("sibling_commit_inside_call", h.sibling_recv_overlaps(s, *eh, *e0, *e1)),
                    );
                    break;
                }
            }
            for (m0, m1, mh) in &s.empties {
                if *m0 > *e1 {
                    out.push(
                        h.base_facts(Finding::new(
                            "EndNotStable",
                            format!(
                                "stream {} handle {} reported Empty/NotReady at [{},{}] after handle {} had been told the end at [{},{}]",
                                s.id, mh, m0, m1, eh, e0, e1
                            ),
                        ))
                        .fact("stream_handles", s.handles.len() as u64),
                    );
                    break;
                }
            }
        }
    }
    out.truncate(4);
    out
}

// ---------------------------------------------------------------------------------------------
// Stuck states (C08, C11, C13, C14): the execution ended in Deadlock or Livelock.

#[derive(Clone, Debug, Default)]
pub struct StuckReport {
    pub findings: Vec<Finding>,
    /// the execution was stuck but no oracle condition explains it (counted, never a violation)
    pub unexplained: bool,
}

/// upper bound of the number of values outstanding for stream `s` in the final state:
/// everything accepted so far, minus the smallest position the stream can have started at,
/// minus what it delivered
fn outstanding_ub(h: &Hist, s: &StreamInfo) -> usize {
    let (lo_start, _) = h.start_range(s.id);
    // sends still in flight at the stuck point may have claimed a position without returning
    h.acc.len().saturating_sub(lo_start).saturating_sub(s.deliveries.len())
}

pub fn stuck(h: &Hist) -> StuckReport {
    let mut rep = StuckReport::default();
    let v = &h.ex.outcome.verdict;
    if !matches!(v, Verdict::Deadlock | Verdict::Livelock) {
        return rep;
    }
    let t = h.t_end;
    for th in &h.ex.outcome.threads {
        if th.finished {
            continue;
        }
        let a = th.activity;
        let kind = CallKind::from_code(a.kind);
        let is_blocking_recv = kind.map(|k| k.is_blocking_recv()).unwrap_or(false);
        let parked_stream = a.kind == ACT_PARKED_STREAM && th.blocked == Some(Block::Park);
        let try_drain = a.kind == ACT_TRY_DRAIN;
        if is_blocking_recv || parked_stream || try_drain {
            if let Some(s) = h.streams.get(&a.stream) {
                let undelivered: Vec<u64> = h
                    .required(s)
                    .iter()
                    .filter(|v| v.t1 <= t && !s.deliveries.iter().any(|d| d.id == v.id))
                    .map(|v| v.id)
                    .collect();
                let gone = h.all_senders_gone_by(t);
                if !undelivered.is_empty() || gone {
                    let what = if parked_stream {
                        "ParkedStreamTask"
                    } else if try_drain {
                        "TryRecvNeverSucceeds"
                    } else {
                        "BlockedReceiver"
                    };
                    rep.findings.push(
                        h.base_facts(Finding::new(
                            what,
                            format!(
                                "{:?}: thread {} is {} on stream {} (handle {}, op #{}) although {}",
                                v,
                                th.tid,
                                if parked_stream {
                                    "parked after NotReady".to_string()
                                } else {
                                    format!("inside {:?}", kind.unwrap_or(CallKind::TryRecv))
                                },
                                a.stream,
                                a.handle,
                                a.op_idx,
                                if gone {
                                    "every sender has been dropped".to_string()
                                } else {
                                    format!("value {:#x} is accepted and undelivered on that stream", undelivered[0])
                                }
                            ),
                        ))
                        .fact("stream_handles", s.handles.len() as u64)
                        .fact("wait", format!("{:?}", h.sc.q.wait))
                        .fact("all_senders_gone", gone)
                        .fact("blocked", format!("{:?}", th.blocked)),
                    );
                }
            }
        }
        let retry = a.kind == ACT_SEND_RETRY;
        let parked_sink = a.kind == ACT_PARKED_SINK && th.blocked == Some(Block::Park);
        if retry || parked_sink {
            let alive: Vec<&StreamInfo> = h
                .streams
                .values()
                .filter(|s| s.handles.values().any(|(_, _, d1)| *d1 > t))
                .collect();
            if alive.is_empty() {
                rep.findings.push(
                    h.base_facts(Finding::new(
                        if parked_sink { "ParkedSinkNoReceiver" } else { "SendNeverDisconnected" },
                        format!(
                            "{:?}: thread {} is {} although every receiver has been dropped",
                            v,
                            th.tid,
                            if parked_sink { "parked in a Sink send" } else { "retrying a refused send" }
                        ),
                    )),
                );
            } else {
                let max_out = alive.iter().map(|s| outstanding_ub(h, s)).max().unwrap_or(0);
                // streams that could be what holds the sender back (their start position is only
                // known as a range, so this is an upper bound) ...
                let blockers: Vec<&&StreamInfo> = alive.iter().filter(|s| outstanding_ub(h, s) >= h.n).collect();
                // ... and whose consumer is itself stuck waiting for a value of that stream
                let consumer_stuck_on = |sid: u32| {
                    h.ex.outcome.threads.iter().any(|o| {
                        !o.finished
                            && o.activity.stream == sid
                            && (CallKind::from_code(o.activity.kind).map(|k| k.is_blocking_recv()).unwrap_or(false)
                                || o.activity.kind == ACT_TRY_DRAIN
                                || (o.activity.kind == ACT_PARKED_STREAM && o.blocked == Some(Block::Park)))
                    })
                };
                if max_out >= h.n && !blockers.is_empty() && blockers.iter().all(|s| consumer_stuck_on(s.id)) && h.senders_alive_lb(t) >= 1 {
                    // Whatever the true start positions are: a stream that really has N values
                    // outstanding has a value for its waiting consumer, and if no stream has,
                    // nothing holds the sender back.  Both sides stuck is impossible.
                    rep.findings.push(
                        h.base_facts(Finding::new(
                            if parked_sink { "ParkedSinkTask" } else { "SendRefusedForever" },
                            format!(
                                "{:?}: thread {} is {} and the consumers of every stream that could hold it back ({:?}) are waiting for a value at the same time: full and empty at once",
                                v,
                                th.tid,
                                if parked_sink { "parked in a Sink send" } else { "retrying a refused send" },
                                blockers.iter().map(|s| s.id).collect::<Vec<_>>()
                            ),
                        ))
                        .fact("full_and_empty_at_once", true),
                    );
                }
                if max_out < h.n {
                    rep.findings.push(
                        h.base_facts(Finding::new(
                            if parked_sink { "ParkedSinkTask" } else { "SendRefusedForever" },
                            format!(
                                "{:?}: thread {} is {} although every remaining stream has at most {} < N = {} values outstanding",
                                v,
                                th.tid,
                                if parked_sink { "parked in a Sink send" } else { "retrying a refused send" },
                                max_out,
                                h.n
                            ),
                        ))
                        .fact("removed_streams", (h.streams.len() - alive.len()) as u64),
                    );
                }
            }
        }
    }
    rep.unexplained = rep.findings.is_empty();
    rep.findings.truncate(3);
    rep
}

// ---------------------------------------------------------------------------------------------
// C10: add_stream.  `witness` is a stream with exactly one handle that was drained to the end;
// its delivery sequence W is the global order of everything accepted after it was created.

pub fn add_stream(h: &Hist, witness: u32) -> Vec<Finding> {
    let mut out = Vec::new();
    if !h.completed() {
        return out;
    }
    let w = match h.streams.get(&witness) {
        Some(w) if !w.ends.is_empty() && w.handles.len() == 1 => w,
        _ => return out,
    };
    let wseq: Vec<u64> = w.deliveries.iter().map(|d| d.id).collect();
    let wpos: BTreeMap<u64, usize> = wseq.iter().enumerate().map(|(i, v)| (*v, i)).collect();
    // start index in W of each stream, where derivable
    let mut start: BTreeMap<u32, usize> = BTreeMap::new();
    start.insert(witness, 0);
    // streams in creation order (ids are allocated in creation-call order per thread; sort by c0)
    let mut order: Vec<&StreamInfo> = h.streams.values().filter(|s| s.id != witness).collect();
    order.sort_by_key(|s| s.c0);
    for s in order {
        let mut seq: Vec<u64> = s.deliveries.iter().map(|d| d.id).collect();
        // every delivered value must be in W (the witness got everything accepted after its creation)
        if seq.iter().any(|v| !wpos.contains_key(v)) {
            // values sent before the witness existed: cannot place this stream
            continue;
        }
        // on a stream shared by several consumers overlapping receives complete in any order:
        // compare the set of delivered values (their order is the business of the C02 oracle)
        seq.sort_by_key(|v| wpos[v]);
        let drained = !s.ends.is_empty();
        let p = if let Some(first) = seq.first() {
            wpos[first]
        } else if drained {
            wseq.len()
        } else {
            continue;
        };
        // contiguity
        let mut ok = true;
        for (k, v) in seq.iter().enumerate() {
            if wseq.get(p + k) != Some(v) {
                ok = false;
                break;
            }
        }
        let facts = |f: Finding| {
            h.base_facts(f)
                .fact("parent_handles_at_call", s.parent_handles_at_call as u64)
                .fact(
                    "sibling_recv_overlaps_call",
                    s.parent
                        .and_then(|p| h.streams.get(&p))
                        .map(|ps| ps.deliveries.iter().any(|d| d.t0 < s.c1 && d.t1 > s.c0))
                        .unwrap_or(false),
                )
        };
        if !ok {
            out.push(facts(Finding::new(
                "NewStreamGap",
                format!(
                    "stream {} (created at [{},{}]) delivered {:x?}, which is not a contiguous run of the global order {:x?}",
                    s.id, s.c0, s.c1, seq, wseq
                ),
            )));
            continue;
        }
        if drained && p + seq.len() != wseq.len() {
            out.push(facts(Finding::new(
                "NewStreamTruncated",
                format!(
                    "stream {} was drained to the end but delivered only {:x?} of the global order {:x?}",
                    s.id, seq, wseq
                ),
            )));
            continue;
        }
        start.insert(s.id, p);
        // position bounds from the parent
        if let Some(pid) = s.parent {
            if let (Some(ps), Some(pp)) = (h.streams.get(&pid), start.get(&pid)) {
                let lo = pp + ps.deliveries.iter().filter(|d| d.t1 < s.c0).count();
                let hi = pp + ps.deliveries.iter().filter(|d| d.t0 < s.c1).count();
                if p < lo || p > hi {
                    out.push(facts(Finding::new(
                        "NewStreamWrongStart",
                        format!(
                            "stream {} created at [{},{}] from stream {} starts at global index {} but its parent was at {}..={} during the call",
                            s.id, s.c0, s.c1, pid, p, lo, hi
                        ),
                    )));
                }
            }
        }
    }
    out.truncate(3);
    out
}

// ---------------------------------------------------------------------------------------------
// C11 (iii): unsubscribe return values

pub fn unsubscribe_values(h: &Hist) -> Vec<Finding> {
    let mut out = Vec::new();
    for s in h.streams.values() {
        // removal calls on this stream
        let rem: Vec<&Call> = h
            .ex
            .calls
            .iter()
            .filter(|c| c.stream == s.id && matches!(c.kind, CallKind::DropRx | CallKind::UnsubRx))
            .collect();
        let total_handles = s.handles.len();
        for c in rem.iter().filter(|c| c.kind == CallKind::UnsubRx && h.completed()) {
            let b = match c.res {
                Res::Bool(Some(b)) => b,
                _ => continue,
            };
            let overlaps = rem.iter().any(|o| o.handle != c.handle && o.t0 < c.t1 && o.t1 > c.t0);
            // handle creations overlapping the call make the count ambiguous too
            let creation_overlaps = s
                .handles
                .iter()
                .any(|(hid, (c1, _, _))| *hid != c.handle && *c1 > c.t0 && *c1 <= c.t1 + 1);
            if overlaps || creation_overlaps {
                continue;
            }
            let alive_others = s
                .handles
                .iter()
                .filter(|(hid, (c1, d0, _))| **hid != c.handle && *c1 <= c.t0 && *d0 > c.t1)
                .count();
            let last = alive_others == 0;
            if b != last {
                out.push(h.base_facts(Finding::new(
                    "UnsubscribeWrongValue",
                    format!(
                        "unsubscribe of handle {} on stream {} at [{},{}] returned {} but {} other handle(s) of the stream were alive",
                        c.handle, s.id, c.t0, c.t1, b, alive_others
                    ),
                )));
            }
        }
        // overlapping final removals: at most one true; exactly one if all handles left by unsubscribe
        let trues = rem
            .iter()
            .filter(|c| c.kind == CallKind::UnsubRx && c.res == Res::Bool(Some(true)))
            .count();
        let all_removed = rem.len() == total_handles && s.handles.values().all(|(_, _, d1)| *d1 != NEVER);
        let all_unsub_bool = rem
            .iter()
            .all(|c| c.kind == CallKind::UnsubRx && matches!(c.res, Res::Bool(Some(_))));
        if trues > 1 {
            out.push(
                h.base_facts(Finding::new(
                    "UnsubscribeTwoLast",
                    format!("{} unsubscribe calls on stream {} returned true", trues, s.id),
                ))
                .fact("overlapping_removals", true),
            );
        }
        if h.completed() && all_removed && all_unsub_bool && total_handles > 0 && trues == 0 {
            let overlapping = rem
                .iter()
                .any(|a| rem.iter().any(|b| a.handle != b.handle && a.t0 < b.t1 && a.t1 > b.t0));
            out.push(
                h.base_facts(Finding::new(
                    "UnsubscribeNoLast",
                    format!(
                        "all {} handles of stream {} were unsubscribed and every call returned false",
                        total_handles, s.id
                    ),
                ))
                .fact("overlapping_removals", overlapping),
            );
        }
    }
    out.truncate(3);
    out
}

// ---------------------------------------------------------------------------------------------
// C13: after the last receiver's drop has returned every send must be Disconnected / Err

pub fn no_receivers(h: &Hist) -> Vec<Finding> {
    let mut out = Vec::new();
    // time at which the last receiver handle's removal returned
    let mut last_gone = 0u64;
    for s in h.streams.values() {
        for (_, _, d1) in s.handles.values() {
            if *d1 == NEVER {
                return out;
            }
            last_gone = last_gone.max(*d1);
        }
    }
    // a handle created later would have been recorded with a creation time; all handles known here
    for c in &h.ex.calls {
        if let Res::Send(o, id) = &c.res {
            if c.t0 > last_gone {
                let ok = match (c.kind, o) {
                    (CallKind::TrySend, SendOut::Disc(_)) => true,
                    (CallKind::StartSend, SendOut::Err(_)) => true,
                    _ => false,
                };
                if !ok {
                    out.push(h.base_facts(Finding::new(
                        "SendAfterLastReceiver",
                        format!(
                            "{:?} of {:#x} at [{},{}] returned {:?} although the last receiver was dropped at {}",
                            c.kind, id, c.t0, c.t1, o, last_gone
                        ),
                    ))
                    .fact("returned", format!("{:?}", o).split('(').next().unwrap_or("").to_string()));
                    break;
                }
            }
        }
    }
    out
}

// ---------------------------------------------------------------------------------------------
// C06: quiescent probes (the ProbeQuiescent op of program 0)

pub fn quiescent(h: &Hist, probe_op: u32) -> Vec<Finding> {
    let mut out = Vec::new();
    if !h.completed() {
        return out;
    }
    let calls: Vec<&Call> = h
        .ex
        .calls
        .iter()
        .filter(|c| c.prog == 0 && c.op_idx == probe_op)
        .collect();
    if calls.is_empty() {
        return out;
    }
    let t_probe = calls[0].t0;
    // split into phases: sends, recvs, sends, recvs
    let mut phases: Vec<Vec<&Call>> = Vec::new();
    for c in calls {
        let is_send = c.kind.is_send();
        match phases.last_mut() {
            Some(p) if p[0].kind.is_send() == is_send => p.push(c),
            _ => phases.push(vec![c]),
        }
    }
    if phases.len() != 4 {
        return out;
    }
    let n = h.n;
    // streams alive at probe time
    let alive: Vec<&StreamInfo> = h
        .streams
        .values()
        .filter(|s| s.handles.values().any(|(_, d0, _)| *d0 > t_probe))
        .collect();
    if alive.is_empty() {
        return out;
    }
    // outstanding interval per stream before the probe: accepted so far, minus the stream's start
    // position (exact for streams created while nothing else ran), minus what it delivered
    let total_acc_before = h.acc.values().filter(|v| v.t1 < t_probe).count();
    let mut lo_out: BTreeMap<u32, usize> = BTreeMap::new();
    let mut hi_out: BTreeMap<u32, usize> = BTreeMap::new();
    for s in &alive {
        let delivered = s.deliveries.iter().filter(|d| d.t1 < t_probe).count();
        let (lo_start, hi_start) = h.start_range(s.id);
        lo_out.insert(s.id, total_acc_before.saturating_sub(hi_start).saturating_sub(delivered));
        hi_out.insert(s.id, total_acc_before.saturating_sub(lo_start).saturating_sub(delivered).min(n));
    }
    let max_lo = lo_out.values().copied().max().unwrap_or(0);
    let max_hi = hi_out.values().copied().max().unwrap_or(0);
    // phase 1: fill
    let k = phases[0].iter().filter(|c| matches!(c.res, Res::Send(SendOut::Ok, _))).count();
    let k_min = n.saturating_sub(max_hi);
    let k_max = n.saturating_sub(max_lo);
    let probe_ids: Vec<u64> = phases[0]
        .iter()
        .filter_map(|c| match c.res {
            Res::Send(SendOut::Ok, id) => Some(id),
            _ => None,
        })
        .collect();
    if k < k_min || k > k_max {
        out.push(h.base_facts(Finding::new(
            "QuiescentFillCount",
            format!(
                "with all threads joined, {} consecutive sends were accepted; the model allows {}..={} (N = {}, outstanding of the slowest stream {}..={})",
                k, k_min, k_max, n, max_lo, max_hi
            ),
        )));
    }
    // phase 2: each stream yields lo+k ..= hi+k values ending with the probe values
    for s in &alive {
        let got: Vec<u64> = phases[1]
            .iter()
            .filter(|c| c.stream == s.id)
            .filter_map(|c| match &c.res {
                Res::Recv(RecvOut::Val(v)) => Some(v.id),
                _ => None,
            })
            .collect();
        let (lo, hi) = (lo_out[&s.id] + k, hi_out[&s.id] + k);
        let tail_ok = got.len() >= k && got[got.len() - k..] == probe_ids[..];
        if got.len() < lo || got.len() > hi.max(lo) || !tail_ok {
            out.push(h.base_facts(Finding::new(
                "QuiescentDrain",
                format!(
                    "with all threads joined, stream {} yielded {} values {:x?}; the model expects {}..={} values ending with the {} probe values {:x?}",
                    s.id,
                    got.len(),
                    got,
                    lo,
                    hi,
                    k,
                    probe_ids
                ),
            )));
            break;
        }
    }
    // phase 3: exactly n accepted from a drained queue, then refused
    let k3 = phases[2].iter().filter(|c| matches!(c.res, Res::Send(SendOut::Ok, _))).count();
    let refused_after = phases[2].len() == n + 1
        && matches!(phases[2][n].res, Res::Send(SendOut::Full(_), _) | Res::Send(SendOut::NotReady(_), _));
    if k3 != n || !refused_after {
        out.push(h.base_facts(Finding::new(
            "QuiescentRefill",
            format!(
                "from a drained queue {} sends were accepted (N = {}); results {:?}",
                k3,
                n,
                phases[2].iter().map(|c| format!("{:?}", c.res)).collect::<Vec<_>>()
            ),
        )));
    }
    let ids3: Vec<u64> = phases[2]
        .iter()
        .filter_map(|c| match c.res {
            Res::Send(SendOut::Ok, id) => Some(id),
            _ => None,
        })
        .collect();
    for s in &alive {
        let got: Vec<u64> = phases[3]
            .iter()
            .filter(|c| c.stream == s.id)
            .filter_map(|c| match &c.res {
                Res::Recv(RecvOut::Val(v)) => Some(v.id),
                _ => None,
            })
            .collect();
        if got != ids3 {
            out.push(h.base_facts(Finding::new(
                "QuiescentDrain2",
                format!(
                    "after the refill stream {} yielded {:x?}, expected exactly {:x?}",
                    s.id, got, ids3
                ),
            )));
            break;
        }
    }
    out.truncate(3);
    out
}


// ---------------------------------------------------------------------------------------------
// C06, first sentence: a refusal (Full / NotReady) with fewer than N values outstanding, or an
// Empty / NotReady with a completely sent value waiting, may only happen while another thread is
// in the middle of an operation on the queue.  For a refused call that overlaps no call of any
// other thread (and with every stream's start position known exactly) the queue is quiescent
// during the call, so the reference model applies to it.

pub fn spurious_while_quiet(h: &Hist) -> (Vec<Finding>, u64) {
    let mut out = Vec::new();
    let mut judged = 0u64;
    let calls = &h.ex.calls;
    // calls that were still running when the execution was torn down overlap everything after
    // their start; their start times are known for receives and sends only, so torn-down
    // executions are not judged
    if !h.completed() {
        return (out, 0);
    }
    let overlaps_other = |x: &Call| calls.iter().any(|c| c.prog != x.prog && c.t0 < x.t1 && c.t1 > x.t0);
    let exact: BTreeMap<u32, usize> = h
        .streams
        .keys()
        .filter_map(|id| {
            let (lo, hi) = h.start_range(*id);
            if lo == hi {
                Some((*id, lo))
            } else {
                None
            }
        })
        .collect();
    for x in calls {
        let refused_send = matches!(&x.res, Res::Send(SendOut::Full(_), _) | Res::Send(SendOut::NotReady(_), _));
        let empty_recv = matches!(&x.res, Res::Recv(RecvOut::Empty)) && x.kind != CallKind::TryIterNext;
        if !(refused_send || empty_recv) || overlaps_other(x) {
            continue;
        }
        let accepted_before = h.acc.values().filter(|v| v.t1 < x.t0).count();
        if refused_send {
            let alive: Vec<&StreamInfo> = h
                .streams
                .values()
                .filter(|s| s.c1 < x.t0 && s.handles.values().any(|(c1, d0, _)| *c1 < x.t0 && *d0 > x.t1))
                .collect();
            if alive.is_empty() || alive.iter().any(|s| !exact.contains_key(&s.id)) {
                continue;
            }
            judged += 1;
            let max_out = alive
                .iter()
                .map(|s| {
                    let delivered = s.deliveries.iter().filter(|d| d.t1 < x.t0).count();
                    accepted_before.saturating_sub(exact[&s.id]).saturating_sub(delivered)
                })
                .max()
                .unwrap_or(0);
            if max_out < h.n {
                out.push(h.base_facts(Finding::new(
                    "SpuriousFullWhileQuiet",
                    format!(
                        "{:?} at [{},{}] was refused although no other thread was inside an operation and the slowest stream had only {} of N = {} values outstanding",
                        x.kind, x.t0, x.t1, max_out, h.n
                    ),
                )));
                break;
            }
        } else if let (Some(s), Some(start)) = (h.streams.get(&x.stream), exact.get(&x.stream)) {
            let delivered = s.deliveries.iter().filter(|d| d.t1 < x.t0).count();
            let available = accepted_before.saturating_sub(*start).saturating_sub(delivered);
            judged += 1;
            if available > 0 {
                out.push(
                    h.base_facts(Finding::new(
                        "SpuriousEmptyWhileQuiet",
                        format!(
                            "{:?} on stream {} at [{},{}] reported Empty/NotReady although no other thread was inside an operation and {} completely sent value(s) were waiting for that stream",
                            x.kind, x.stream, x.t0, x.t1, available
                        ),
                    ))
                    .fact("stream_handles", s.handles.len() as u64),
                );
                break;
            }
        }
    }
    (out, judged)
}

// ---------------------------------------------------------------------------------------------
// payload / ledger based oracles

/// C04: values observed by consumers are complete and live for the duration of the observation
pub fn payload_events(h: &Hist, kinds: &[&str]) -> Vec<Finding> {
    let mut out = Vec::new();
    for e in &h.ex.ledger.events {
        if kinds.contains(&e.kind()) {
            out.push(h.base_facts(Finding::new(e.kind(), format!("{:?}", e))));
        }
    }
    out.truncate(3);
    out
}

pub const C04_KINDS: [&str; 10] = [
    "CorruptAtClone",
    "DeadAtClone",
    "ChangedDuringClone",
    "DeadDuringClone",
    "CorruptAtView",
    "DeadAtView",
    "ChangedDuringView",
    "DeadDuringView",
    "CorruptDelivered",
    "DeadDelivered",
];

pub const C05_KINDS: [&str; 3] = ["DoubleDrop", "DropOfUnknown", "ChangedDuringDrop"];

/// C05: after the last handle is gone every instance has been dropped exactly once
pub fn ledger_final(h: &Hist) -> Vec<Finding> {
    let mut out = payload_events(h, &C05_KINDS);
    if h.completed() && !h.ex.ledger.live_at_end.is_empty() {
        out.push(h.base_facts(Finding::new(
            "NeverDropped",
            format!(
                "{} payload instance(s) still alive after the last handle was dropped: {:x?}",
                h.ex.ledger.live_at_end.len(),
                &h.ex.ledger.live_at_end[..h.ex.ledger.live_at_end.len().min(6)]
            ),
        )));
    }
    out
}

/// violations recorded by the interpreter (model mismatches, hand-back identity, parked tasks)
pub fn interpreter_violations(h: &Hist, kinds: &[&str]) -> Vec<Finding> {
    h.ex
        .viol
        .iter()
        .filter(|v| kinds.contains(&v.kind.as_str()))
        .map(|v| h.base_facts(Finding::new(&v.kind, v.detail.clone())))
        .collect()
}

/// panics and calls that do not return
pub fn verdict_findings(h: &Hist, sequential: bool) -> Vec<Finding> {
    let mut out = Vec::new();
    match &h.ex.outcome.verdict {
        // a panic raised by the harness itself (its sources are compiled with relative paths) is a
        // harness failure, never a verdict about the crate
        Verdict::Panic(t, msg) if msg.contains(" at src/") => out.push(Finding::new(
            "HarnessPanic",
            format!("harness thread {} panicked: {}", t, msg),
        )),
        Verdict::Panic(t, msg) => out.push(
            h.base_facts(Finding::new("Panic", format!("thread {} panicked: {}", t, msg)))
                .fact("message", msg.split(" at ").next().unwrap_or("").to_string()),
        ),
        Verdict::TryOpSpins(t, b) => {
            let a = h.ex.outcome.threads.iter().find(|x| x.tid == *t).map(|x| x.activity);
            out.push(
                h.base_facts(Finding::new(
                    "CallDoesNotReturn",
                    format!(
                        "a non-waiting call (try operation, poll, start_send) executed more than {} of its own scheduling points (in a row without a change by another thread, or - poll / start_send - in total) and had not returned: {:?}",
                        b,
                        a.map(|a| (CallKind::from_code(a.kind), a.handle, a.stream, a.op_idx))
                    ),
                ))
                .fact(
                    "call",
                    a.and_then(|a| CallKind::from_code(a.kind))
                        .map(|k| format!("{:?}", k))
                        .unwrap_or_default(),
                )
                .fact("spinning_not_solo", true),
            )
        }
        Verdict::SoloBound(t, b) => {
            let a = h.ex.outcome.threads.iter().find(|x| x.tid == *t).map(|x| x.activity);
            out.push(
                h.base_facts(Finding::new(
                    "CallDoesNotReturn",
                    format!(
                        "a call running alone did not return within {} scheduling points: {:?}",
                        b,
                        a.map(|a| (CallKind::from_code(a.kind), a.handle, a.stream, a.op_idx))
                    ),
                ))
                .fact(
                    "call",
                    a.and_then(|a| CallKind::from_code(a.kind))
                        .map(|k| format!("{:?}", k))
                        .unwrap_or_default(),
                ),
            )
        }
        Verdict::SoloBlocked(t) => out.push(h.base_facts(Finding::new(
            "CallBlocks",
            format!("a call running alone blocked on a lock held by a frozen thread (thread {})", t),
        ))),
        Verdict::Deadlock | Verdict::Livelock if sequential => {
            let a = h.ex.outcome.threads.first().map(|x| x.activity);
            out.push(
                h.base_facts(Finding::new(
                    "CallDoesNotReturn",
                    format!(
                        "single-threaded history: {:?} inside {:?}",
                        h.ex.outcome.verdict,
                        a.map(|a| (CallKind::from_code(a.kind), a.handle, a.stream, a.op_idx))
                    ),
                ))
                .fact(
                    "call",
                    a.and_then(|a| CallKind::from_code(a.kind))
                        .map(|k| format!("{:?}", k))
                        .unwrap_or_default(),
                ),
            )
        }
        _ => {}
    }
    out
}

/// C16: memory faults found by the quarantine
pub fn memory_faults(h: &Hist) -> Vec<Finding> {
    let mut out = Vec::new();
    for f in &h.ex.outcome.faults {
        let kind = f.split(':').next().unwrap_or("MemoryFault").to_string();
        out.push(h.base_facts(Finding::new(&kind, f.clone())));
    }
    out.truncate(2);
    out
}
