//! E1 runtime: a serialising scheduler for the instrumented crate.
//!
//! Every managed thread is a real OS thread, but exactly one of them runs at a time.  At every
//! shim call (atomic, fence, lock, condvar, yield, sleep) and at every harness-level point the
//! running thread asks the scheduler who goes next; the answer is a pure function of the generated
//! `Schedule` and of the (deterministic) execution so far.

use multiqueue2::verif_hooks::{self, OpKind, Runtime};
use std::cell::Cell;
use std::collections::BTreeMap;
use std::panic::{self, AssertUnwindSafe};
use std::sync::{mpsc, Condvar, Mutex, MutexGuard, Once};

pub const MAX_THREADS: usize = 10;
/// Pseudo address of the scheduling point inside payload `Clone`/view closures.
pub const ADDR_PAYLOAD: usize = 1;
/// Pseudo address of harness-level points (yield between retries, call boundaries).
pub const ADDR_HARNESS: usize = 2;
/// pseudo address of the point before a dereference of bookkeeping memory (`touch`)
pub const ADDR_TOUCH: usize = 3;
/// `Policy::Walk.target` value that designates the payload point instead of an address index
pub const TARGET_PAYLOAD: u8 = 255;

thread_local! {
    static TID: Cell<usize> = const { Cell::new(usize::MAX) };
    static PANIC_MSG: Cell<Option<String>> = const { Cell::new(None) };
    /// the thread is inside a handle drop that the harness performs by unwinding on purpose
    static DELIBERATE_UNWIND: Cell<bool> = const { Cell::new(false) };
    /// the scheduler has started to unwind this thread for the tear-down of the execution
    static TEARDOWN_UNWIND: Cell<bool> = const { Cell::new(false) };
}

/// Marks the calling thread as (not) being inside a drop-by-unwinding made on purpose.
pub fn set_deliberate_unwind(on: bool) {
    DELIBERATE_UNWIND.with(|d| d.set(on));
}

/// Is the thread unwinding from a panic that is not the harness's own deliberate one?  Once the
/// scheduler has started to unwind the thread for the tear-down of the execution the answer stays
/// yes, also inside a deliberate drop-by-unwinding: destructors that run as clean-up of that
/// unwinding must pass through the hooks, a second panic there would abort the process.
pub fn genuinely_panicking() -> bool {
    std::thread::panicking() && (!DELIBERATE_UNWIND.with(|d| d.get()) || TEARDOWN_UNWIND.with(|d| d.get()))
}

/// Unwinds the calling thread because the execution is being torn down.
fn unwind_for_teardown() -> ! {
    TEARDOWN_UNWIND.with(|d| d.set(true));
    panic::resume_unwind(Box::new(AbortToken))
}

/// Operations that run outside the scheduler's control (destructors during tear-down, the
/// controller's clean-up after an execution).  They are few in a sane crate; a corrupted queue can
/// make a destructor loop practically for ever (e.g. walking from a position that is ahead of the
/// head), which would hang the worker: after a few million of them the process aborts, and the
/// driver reports the crash together with the scenario.
static PASS_THROUGH_OPS: std::sync::atomic::AtomicU64 = std::sync::atomic::AtomicU64::new(0);

/// Heartbeat of the process: incremented at every scheduling point, at the start and at the end of
/// every execution.  A watchdog thread of the worker (`start_hang_watchdog`) looks at it every 5 s.
/// When it has stood still for 60 s (again at 180 s) while an execution is running AND the process
/// has consumed at least a fifth of that interval as CPU time, crate code is spinning in a loop that
/// never reaches an instrumented operation (it reads no shared memory, so nothing can ever end the
/// loop): exit code 4, which the driver confirms by running the shard again and then reports as a
/// violation (`RunawayLoop`).  A standstill without CPU consumption is the machine starving the
/// process: exit code 3 after 10 minutes, reported as inconclusive (exit 2), never as a violation.
pub static HEARTBEAT: std::sync::atomic::AtomicU64 = std::sync::atomic::AtomicU64::new(0);
pub static EXECUTING: std::sync::atomic::AtomicBool = std::sync::atomic::AtomicBool::new(false);

/// CPU time (user + system, in clock ticks of 1/100 s) consumed by this process so far.
fn process_cpu_ticks() -> u64 {
    let s = std::fs::read_to_string("/proc/self/stat").unwrap_or_default();
    // the fields after the command name (which may contain spaces) start behind the last ')'
    let rest = s.rsplit(')').next().unwrap_or("");
    let f: Vec<&str> = rest.split_whitespace().collect();
    // rest[0] is field 3 (state); utime and stime are fields 14 and 15
    let get = |k: usize| f.get(k - 3).and_then(|x| x.parse::<u64>().ok()).unwrap_or(0);
    get(14) + get(15)
}

pub fn start_hang_watchdog() {
    use std::sync::atomic::Ordering::Relaxed;
    std::thread::Builder::new()
        .name("mqv-watchdog".into())
        .spawn(|| {
            let mut last = HEARTBEAT.load(Relaxed);
            let mut still = 0u32;
            let mut cpu_at_stop = process_cpu_ticks();
            loop {
                std::thread::sleep(std::time::Duration::from_secs(5));
                let now = HEARTBEAT.load(Relaxed);
                if now == last && EXECUTING.load(Relaxed) {
                    still += 1;
                    if still == 12 || still == 36 || still >= 120 {
                        // only one managed thread runs at a time: if the process has burnt most of
                        // the interval as CPU time the thread is spinning, not starved by the machine
                        let burnt = process_cpu_ticks().saturating_sub(cpu_at_stop);
                        if burnt >= 100 * 5 * still as u64 / 5 {
                            eprintln!("mqv: no scheduling point reached for {} s inside one execution while the process used {} s of CPU time: crate code is looping without touching shared memory", 5 * still, burnt / 100);
                            std::process::exit(4);
                        }
                        if still >= 120 {
                            eprintln!("mqv: no scheduling point reached for 600 s inside one execution (and little CPU time used): giving up (inconclusive)");
                            std::process::exit(3);
                        }
                    }
                } else {
                    still = 0;
                    last = now;
                    cpu_at_stop = process_cpu_ticks();
                }
            }
        })
        .ok();
}

fn pass_through_op() {
    let n = PASS_THROUGH_OPS.fetch_add(1, std::sync::atomic::Ordering::Relaxed);
    if n > 20_000_000 {
        eprintln!("mqv: more than 20 million uncontrolled operations in one execution (runaway destructor?): aborting");
        std::process::abort();
    }
}

pub fn trace_on() -> bool {
    static ON: std::sync::OnceLock<bool> = std::sync::OnceLock::new();
    *ON.get_or_init(|| std::env::var("MQV_TRACE").is_ok())
}

pub fn current_tid() -> Option<usize> {
    let t = TID.with(|t| t.get());
    if t == usize::MAX {
        None
    } else {
        Some(t)
    }
}

#[derive(Clone, Debug, PartialEq, Eq, serde::Serialize, serde::Deserialize)]
pub enum Block {
    Mutex(usize),
    Cond { cv: usize, mutex: usize },
    Join(usize),
    Gate(usize),
    Park,
    /// suspended for good by the freeze sweep (C18): never woken
    Frozen,
}

#[derive(Clone, Debug, PartialEq, Eq)]
enum TState {
    Idle,
    Runnable,
    Blocked(Block),
    Finished,
}

#[derive(Clone, Debug, PartialEq, Eq, serde::Serialize, serde::Deserialize)]
pub enum Verdict {
    Completed,
    /// no thread can run, some thread has not finished
    Deadlock,
    /// no value-changing write for `livelock` consecutive points
    Livelock,
    /// step budget exceeded: inconclusive, never a violation
    Budget,
    Panic(usize, String),
    /// memory fault found by the quarantine
    Fault(String),
    /// a solo-run call exceeded its step bound
    SoloBound(usize, u64),
    /// a solo-run call blocked on something held by a frozen thread
    SoloBlocked(usize),
    /// a try operation executed more than the given number of its own scheduling points in a row
    /// while no other thread changed anything, and had not returned
    TryOpSpins(usize, u64),
}

#[derive(Clone, Debug, serde::Serialize, serde::Deserialize, PartialEq, Eq)]
pub enum Policy {
    /// stay on the running thread when byte < stay (out of 256); at points touching the
    /// `target`-th distinct address (first-seen order) use `stay_target` instead.
    Walk {
        stay: u8,
        target: Option<u8>,
        stay_target: u8,
    },
    /// PCT: run the highest-priority enabled thread; at the given decision indices the running
    /// thread drops below all others.
    Pct { prio: Vec<u8>, change: Vec<u32> },
    /// follow a recorded trace (replay)
    Trace(Vec<u8>),
    /// the non-preemptive schedule (stay on the running thread; when it yields or blocks take the
    /// next thread in cyclic order) except at the listed decision numbers (1-based), where the
    /// `alt`-th other candidate is chosen instead
    Deviate(Vec<(u32, u8)>),
    /// a random walk (`stay` as in `Walk`) in which thread `victim` is suspended at its `nth`
    /// (0-based) dereference point (`touch`) until no other thread can make progress: the classic
    /// shape of a use-after-free under deferred reclamation
    Stall { victim: u8, nth: u8, stay: u8 },
    /// as `Stall`, but the victim is suspended at its `nth` (0-based) scheduling point of any kind
    /// inside its first call of kind `kind` (a `CallKind` code): everybody else runs on until
    /// nobody can make progress, then the victim finishes the call on what it had read before
    /// `hold` > 0: the victim is released after the others have executed `16 * hold` points
    /// (or earlier when nobody else can make progress), i.e. while traffic is still flowing
    StallCall {
        victim: u8,
        kind: u8,
        nth: u8,
        stay: u8,
        #[serde(default)]
        hold: u8,
    },
}

#[derive(Clone, Debug, serde::Serialize, serde::Deserialize, PartialEq, Eq)]
pub struct Schedule {
    pub policy: Policy,
    pub bytes: Vec<u8>,
}

impl Schedule {
    pub fn none() -> Schedule {
        Schedule {
            policy: Policy::Walk {
                stay: 255,
                target: None,
                stay_target: 255,
            },
            bytes: vec![],
        }
    }
}

#[derive(Clone, Debug)]
pub struct ExecCfg {
    pub schedule: Schedule,
    pub max_steps: u64,
    pub livelock: u64,
    pub spin_yield: u32,
    /// inject a spurious failure into every k-th weak CAS decision whose schedule byte asks for it
    pub weak_cas_fail: bool,
    pub quarantine: bool,
    /// > 0: bound on the scheduling points a try operation may execute in a row without any
    /// other thread changing shared state in between (C18 for every try call of an execution)
    pub try_quiet_bound: u64,
    /// > 0: the same kind of bound for the futures entry points (poll, start_send, poll_complete):
    /// they may spin as long as the configured spin counts allow, but not wait inside the call
    pub fut_quiet_bound: u64,
    /// when the schedule bytes are used up start again at the first one (long churn runs: the
    /// preemptions do not stop after the first few hundred decisions)
    pub cyclic: bool,
    /// (thread, k): the thread is suspended for good when it reaches its k-th scheduling point,
    /// holding whatever it holds; the others run on (C18 freeze sweep)
    pub freeze: Option<(usize, u64)>,
    /// the thread named by `freeze` is not suspended for good but held back until no other thread
    /// can make progress (all blocked, parked, finished or yielding), then runs on (hold sweep)
    pub freeze_holds: bool,
}

impl Default for ExecCfg {
    fn default() -> Self {
        ExecCfg {
            schedule: Schedule::none(),
            max_steps: 40_000,
            livelock: 4_000,
            spin_yield: 40,
            weak_cas_fail: false,
            quarantine: false,
            try_quiet_bound: 0,
            fut_quiet_bound: 0,
            cyclic: false,
            freeze: None,
            freeze_holds: false,
        }
    }
}

/// What a managed thread is doing at the harness level (set with `set_activity`).
#[derive(Clone, Copy, Debug, Default, PartialEq, Eq, serde::Serialize, serde::Deserialize)]
pub struct Act {
    /// harness-defined code of the API call in progress (0 = between calls)
    pub kind: u8,
    pub handle: u32,
    pub stream: u32,
    pub op_idx: u32,
}

#[derive(Clone, Debug, serde::Serialize, serde::Deserialize)]
pub struct ThreadInfo {
    pub tid: usize,
    pub finished: bool,
    pub blocked: Option<Block>,
    pub steps: u64,
    pub yielded: bool,
    pub activity: Act,
}

#[derive(Clone, Debug, serde::Serialize, serde::Deserialize)]
pub struct Outcome {
    pub verdict: Verdict,
    pub steps: u64,
    pub decisions: u64,
    pub switches: u64,
    pub preempt_in_call: u64,
    pub trace: Vec<u8>,
    /// state of every thread when the execution ended or was torn down
    pub threads: Vec<ThreadInfo>,
    pub faults: Vec<String>,
    pub max_solo: u64,
    /// longest run of points of one try operation without a change by another thread
    pub max_try_quiet: u64,
    pub frees: u64,
    pub allocs: u64,
    pub weak_fail_injected: u64,
    pub reclaim_batches: u64,
    pub reclaim_batches_concurrent: u64,
}

struct Th {
    state: TState,
    yielded: bool,
    stalled: bool,
    touches: u32,
    ro_streak: u32,
    notified: bool,
    steps: u64,
    in_call: bool,
    activity: Act,
    /// value-changing writes made by this thread
    own_changes: u64,
    /// changes by others seen at this thread's previous point of the current call
    call_seen_foreign: u64,
    /// consecutive points of the current call without a change by anybody else
    call_quiet: u64,
    /// scheduling points of the current call so far
    call_points: u32,
    /// the StallCall policy has suspended this thread once already
    stall_done: bool,
}

struct Solo {
    tid: usize,
    bound: u64,
    used: u64,
}

struct State {
    active: bool,
    exec_no: u64,
    abort: Option<Verdict>,
    complete: bool,
    live: usize,
    threads: Vec<Th>,
    current: usize,
    step: u64,
    last_change: u64,
    changes_total: u64,
    stall_release_at: Option<u64>,
    cfg: ExecCfg,
    byte_pos: usize,
    decisions: u64,
    switches: u64,
    preempt_in_call: u64,
    trace: Vec<u8>,
    mutexes: Vec<(usize, usize)>, // (addr, owner)
    gates: Vec<bool>,
    addr_seen: Vec<usize>,
    pending_addr: usize,
    solo: Option<Solo>,
    max_solo: u64,
    max_try_quiet: u64,
    pct_prio: [i32; MAX_THREADS],
    pct_low: i32,
    // quarantine
    live_allocs: BTreeMap<usize, (usize, usize)>,
    freed: BTreeMap<usize, (usize, usize)>,
    faults: Vec<String>,
    frees: u64,
    allocs: u64,
    weak_fail_injected: u64,
    weak_cas_seen: u64,
    stuck: Vec<ThreadInfo>,
    last_solo_midcall: usize,
    last_solo_used: u64,
    consecutive_frees: u32,
    reclaim_batches: u64,
    reclaim_batches_concurrent: u64,
}

pub struct Sched {
    st: Mutex<State>,
    cvs: Vec<Condvar>,
    done: Condvar,
    jobs: Mutex<Vec<mpsc::Sender<Job>>>,
}

type Job = Box<dyn FnOnce() + Send + 'static>;

/// payload used to unwind managed threads when an execution is torn down
pub struct AbortToken;

static mut SCHED_PTR: *const Sched = std::ptr::null();
static INIT: Once = Once::new();

pub fn sched() -> &'static Sched {
    INIT.call_once(|| {
        let s = Box::leak(Box::new(Sched::new()));
        unsafe {
            SCHED_PTR = s as *const Sched;
        }
        verif_hooks::set_runtime(s);
        let prev = panic::take_hook();
        panic::set_hook(Box::new(move |info| {
            if current_tid().is_some() {
                let msg = if let Some(s) = info.payload().downcast_ref::<&str>() {
                    s.to_string()
                } else if let Some(s) = info.payload().downcast_ref::<String>() {
                    s.clone()
                } else {
                    "<non-string panic>".to_string()
                };
                let loc = info
                    .location()
                    .map(|l| format!(" at {}:{}", l.file(), l.line()))
                    .unwrap_or_default();
                PANIC_MSG.with(|p| p.set(Some(format!("{}{}", msg, loc))));
            } else {
                prev(info);
            }
        }));
        s.start_pool();
    });
    unsafe { &*SCHED_PTR }
}

impl State {
    fn new() -> State {
        State {
            active: false,
            exec_no: 0,
            abort: None,
            complete: false,
            live: 0,
            threads: Vec::new(),
            current: 0,
            step: 0,
            last_change: 0,
            changes_total: 0,
            stall_release_at: None,
            cfg: ExecCfg::default(),
            byte_pos: 0,
            decisions: 0,
            switches: 0,
            preempt_in_call: 0,
            trace: Vec::new(),
            mutexes: Vec::new(),
            gates: Vec::new(),
            addr_seen: Vec::new(),
            pending_addr: 0,
            solo: None,
            max_solo: 0,
            max_try_quiet: 0,
            pct_prio: [0; MAX_THREADS],
            pct_low: 0,
            live_allocs: BTreeMap::new(),
            freed: BTreeMap::new(),
            faults: Vec::new(),
            frees: 0,
            allocs: 0,
            weak_fail_injected: 0,
            weak_cas_seen: 0,
            stuck: Vec::new(),
            last_solo_midcall: 0,
            last_solo_used: 0,
            consecutive_frees: 0,
            reclaim_batches: 0,
            reclaim_batches_concurrent: 0,
        }
    }

    fn snapshot(&self) -> Vec<ThreadInfo> {
        self.threads
            .iter()
            .enumerate()
            .filter(|(_, t)| t.state != TState::Idle)
            .map(|(i, t)| ThreadInfo {
                tid: i,
                finished: t.state == TState::Finished,
                blocked: match &t.state {
                    TState::Blocked(b) => Some(b.clone()),
                    _ => None,
                },
                steps: t.steps,
                yielded: t.yielded,
                activity: t.activity,
            })
            .collect()
    }

    fn set_abort(&mut self, v: Verdict) {
        if self.abort.is_none() {
            self.stuck = self.snapshot();
            self.abort = Some(v);
        }
    }

    fn next_byte(&mut self) -> Option<u8> {
        if self.cfg.cyclic && self.byte_pos >= self.cfg.schedule.bytes.len() {
            self.byte_pos = 0;
        }
        let b = self.cfg.schedule.bytes.get(self.byte_pos).copied();
        if b.is_some() {
            self.byte_pos += 1;
        }
        b
    }

    fn addr_index(&mut self, addr: usize) -> usize {
        if let Some(i) = self.addr_seen.iter().position(|a| *a == addr) {
            i
        } else {
            self.addr_seen.push(addr);
            self.addr_seen.len() - 1
        }
    }

    fn mark_change(&mut self) {
        self.last_change = self.step;
        self.changes_total += 1;
        for t in self.threads.iter_mut() {
            t.yielded = false;
        }
    }

    fn wake_where<F: Fn(&Block) -> bool>(&mut self, f: F) -> bool {
        let mut any = false;
        for t in self.threads.iter_mut() {
            if let TState::Blocked(b) = &t.state {
                if f(b) {
                    t.state = TState::Runnable;
                    any = true;
                }
            }
        }
        if any {
            self.mark_change();
        }
        any
    }

    /// Chooses the next thread to run among the runnable ones.  `me` is the thread at the point
    /// (it may itself be blocked or finished, in which case it is not a candidate).
    fn pick(&mut self, me: usize) -> Option<usize> {
        let mut cands: Vec<usize> = Vec::with_capacity(MAX_THREADS);
        for (i, t) in self.threads.iter().enumerate() {
            if t.state == TState::Runnable {
                cands.push(i);
            }
        }
        if cands.is_empty() {
            return None;
        }
        if let Some(t) = self.stall_release_at {
            if self.step >= t {
                self.stall_release_at = None;
                for th in self.threads.iter_mut() {
                    th.stalled = false;
                }
            }
        }
        if cands.iter().any(|i| self.threads[*i].stalled) {
            // a stalled thread stays suspended while any other thread can make progress
            let progress = cands.iter().any(|i| !self.threads[*i].stalled && !self.threads[*i].yielded);
            if progress {
                cands.retain(|i| !self.threads[*i].stalled);
            } else {
                for t in self.threads.iter_mut() {
                    t.stalled = false;
                }
            }
        }
        let mut pool: Vec<usize> = cands
            .iter()
            .copied()
            .filter(|i| !self.threads[*i].yielded)
            .collect();
        if pool.is_empty() {
            for t in self.threads.iter_mut() {
                t.yielded = false;
            }
            // everyone has yielded: round-robin starting after `me`, so that a yielding thread
            // really lets the others go first
            pool = cands.clone();
            if pool.len() > 1 {
                pool.retain(|i| *i != me);
            }
        }
        if pool.len() == 1 {
            return Some(pool[0]);
        }
        let can_stay = pool.contains(&me);
        self.decisions += 1;
        let choice = match self.cfg.schedule.policy.clone() {
            Policy::Walk {
                stay,
                target,
                stay_target,
            } => {
                let thr = match target {
                    Some(t) if self.pending_addr == t as usize => stay_target,
                    _ => stay,
                };
                match self.next_byte() {
                    Some(b) => {
                        if can_stay && b <= thr {
                            me
                        } else {
                            let others: Vec<usize> =
                                pool.iter().copied().filter(|i| *i != me).collect();
                            others[(b as usize) % others.len()]
                        }
                    }
                    None => {
                        if can_stay {
                            me
                        } else {
                            // round robin: first pool member after me
                            *pool.iter().find(|i| **i > me).unwrap_or(&pool[0])
                        }
                    }
                }
            }
            Policy::Stall { stay, .. } | Policy::StallCall { stay, .. } => match self.next_byte() {
                Some(b) => {
                    if can_stay && b <= stay {
                        me
                    } else {
                        let others: Vec<usize> = pool.iter().copied().filter(|i| *i != me).collect();
                        others[(b as usize) % others.len()]
                    }
                }
                None => {
                    if can_stay {
                        me
                    } else {
                        *pool.iter().find(|i| **i > me).unwrap_or(&pool[0])
                    }
                }
            },
            Policy::Pct { prio: _, change } => {
                if can_stay && change.contains(&(self.decisions as u32)) {
                    self.pct_low -= 1;
                    self.pct_prio[me] = self.pct_low;
                }
                *pool
                    .iter()
                    .max_by_key(|i| (self.pct_prio[**i], usize::MAX - **i))
                    .unwrap()
            }
            Policy::Deviate(devs) => {
                let default = if can_stay {
                    me
                } else {
                    *pool.iter().find(|i| **i > me).unwrap_or(&pool[0])
                };
                match devs.iter().find(|(d, _)| *d as u64 == self.decisions) {
                    Some((_, alt)) => {
                        let others: Vec<usize> = pool.iter().copied().filter(|i| *i != default).collect();
                        if others.is_empty() {
                            default
                        } else {
                            others[(*alt as usize) % others.len()]
                        }
                    }
                    None => default,
                }
            }
            Policy::Trace(tr) => {
                let want = tr.get((self.decisions - 1) as usize).copied();
                match want {
                    Some(w) if pool.contains(&(w as usize)) => w as usize,
                    _ => {
                        if can_stay {
                            me
                        } else {
                            *pool.iter().find(|i| **i > me).unwrap_or(&pool[0])
                        }
                    }
                }
            }
        };
        self.trace.push(choice as u8);
        Some(choice)
    }

    fn check_uaf(&self, addr: usize) -> Option<String> {
        if self.freed.is_empty() {
            return None;
        }
        if let Some((start, (len, _))) = self.freed.range(..=addr).next_back() {
            if addr < start + len {
                return Some(format!(
                    "access to freed block (block #{} of {} bytes, offset {})",
                    self.freed.keys().position(|k| k == start).unwrap_or(0),
                    len,
                    addr - start
                ));
            }
        }
        None
    }
}

impl Sched {
    fn new() -> Sched {
        Sched {
            st: Mutex::new(State::new()),
            cvs: (0..MAX_THREADS).map(|_| Condvar::new()).collect(),
            done: Condvar::new(),
            jobs: Mutex::new(Vec::new()),
        }
    }

    fn lock(&self) -> MutexGuard<'_, State> {
        match self.st.lock() {
            Ok(g) => g,
            Err(p) => p.into_inner(),
        }
    }

    fn start_pool(&'static self) {
        let mut jobs = self.jobs.lock().unwrap();
        for i in 0..MAX_THREADS {
            let (tx, rx) = mpsc::channel::<Job>();
            jobs.push(tx);
            std::thread::Builder::new()
                .name(format!("mqv-{}", i))
                .stack_size(1 << 20)
                .spawn(move || {
                    while let Ok(job) = rx.recv() {
                        TID.with(|t| t.set(i));
                        self.thread_main(i, job);
                        TID.with(|t| t.set(usize::MAX));
                    }
                })
                .unwrap();
        }
    }

    fn thread_main(&self, me: usize, job: Job) {
        // wait for the baton
        {
            let mut st = self.lock();
            while st.current != me && st.abort.is_none() {
                st = self.cvs[me].wait(st).unwrap_or_else(|p| p.into_inner());
            }
        }
        let aborted_before_start = self.lock().abort.is_some();
        let r = if aborted_before_start {
            // still run the destructor of the job's captures, but not the job
            panic::catch_unwind(AssertUnwindSafe(move || drop(job)))
        } else {
            panic::catch_unwind(AssertUnwindSafe(job))
        };
        TEARDOWN_UNWIND.with(|d| d.set(false));
        DELIBERATE_UNWIND.with(|d| d.set(false));
        let mut st = self.lock();
        if let Err(e) = r {
            if e.downcast_ref::<AbortToken>().is_none() {
                let msg = PANIC_MSG
                    .with(|p| p.take())
                    .unwrap_or_else(|| "<panic>".to_string());
                if st.abort.is_none() {
                    st.set_abort(Verdict::Panic(me, msg));
                    self.wake_all();
                }
            }
        }
        st.threads[me].state = TState::Finished;
        st.live -= 1;
        st.wake_where(|b| *b == Block::Join(me));
        if st.abort.is_some() {
            if st.live == 0 {
                self.done.notify_all();
            }
            return;
        }
        match st.pick(me) {
            Some(n) => {
                st.current = n;
                st.switches += 1;
                self.cvs[n].notify_all();
            }
            None => {
                let all_done = st
                    .threads
                    .iter()
                    .all(|t| matches!(t.state, TState::Finished | TState::Idle));
                if all_done {
                    st.complete = true;
                    self.done.notify_all();
                } else {
                    st.set_abort(Verdict::Deadlock);
                    self.wake_all();
                    if st.live == 0 {
                        self.done.notify_all();
                    }
                }
            }
        }
    }

    fn wake_all(&self) {
        for cv in &self.cvs {
            cv.notify_all();
        }
        self.done.notify_all();
    }

    /// Tears the execution down with `v` (first verdict wins) and unwinds the calling thread.
    fn abort_here(&self, mut st: MutexGuard<'_, State>, v: Verdict) -> ! {
        st.set_abort(v);
        self.wake_all();
        drop(st);
        unwind_for_teardown();
    }

    /// Common prologue of every point.  Returns None if the point must be skipped
    /// (unmanaged thread, no execution, unwinding during teardown).
    fn enter(&self) -> Option<(usize, MutexGuard<'_, State>)> {
        let me = match current_tid() {
            Some(m) => m,
            None => {
                pass_through_op();
                return None;
            }
        };
        let mut st = self.lock();
        if !st.active {
            pass_through_op();
            return None;
        }
        if genuinely_panicking() {
            // a genuine panic is unwinding through the crate's destructors: tear the execution
            // down now and let the destructors run on the real primitives
            if st.abort.is_none() {
                let msg = PANIC_MSG
                    .with(|p| p.take())
                    .unwrap_or_else(|| "<panic>".to_string());
                st.set_abort(Verdict::Panic(me, msg));
                self.wake_all();
            }
            drop(st);
            pass_through_op();
            return None;
        }
        if st.abort.is_some() {
            drop(st);
            unwind_for_teardown();
        }
        Some((me, st))
    }

    /// Hands the baton to `next` (if different from `me`) and waits until it comes back.
    fn switch_to<'a>(
        &'a self,
        mut st: MutexGuard<'a, State>,
        me: usize,
        next: usize,
    ) -> MutexGuard<'a, State> {
        if next == me {
            return st;
        }
        st.switches += 1;
        if st.threads[me].in_call && st.threads[me].state == TState::Runnable {
            st.preempt_in_call += 1;
        }
        st.current = next;
        self.cvs[next].notify_all();
        while st.current != me && st.abort.is_none() {
            st = self.cvs[me].wait(st).unwrap_or_else(|p| p.into_inner());
        }
        if st.abort.is_some() {
            drop(st);
            unwind_for_teardown();
        }
        st
    }

    /// A scheduling point of the running thread (which stays runnable).
    fn point<'a>(&'a self, mut st: MutexGuard<'a, State>, me: usize, addr: usize) -> MutexGuard<'a, State> {
        st.consecutive_frees = 0;
        HEARTBEAT.fetch_add(1, std::sync::atomic::Ordering::Relaxed);
        st.step += 1;
        st.threads[me].steps += 1;
        if st.step > st.cfg.max_steps {
            self.abort_here(st, Verdict::Budget);
        }
        if st.step - st.last_change > st.cfg.livelock {
            // nobody has changed anything for a long time: a thread that has spent a long run of
            // its own points inside one try operation meanwhile is not waiting, it is spinning
            if st.cfg.try_quiet_bound > 0 {
                let spinner = st.threads.iter().enumerate().find(|(_, t)| {
                    let k = t.activity.kind;
                    (k == 1 || k == 7 || k == 9 || k == 11) && t.call_quiet >= 150 && t.state == TState::Runnable
                });
                if let Some((tid, t)) = spinner {
                    let q = t.call_quiet;
                    self.abort_here(st, Verdict::TryOpSpins(tid, q));
                }
            }
            self.abort_here(st, Verdict::Livelock);
        }
        if let Some(s) = st.solo.as_mut() {
            if s.tid == me {
                s.used += 1;
                if s.used > s.bound {
                    let (t, b) = (s.tid, s.bound);
                    self.abort_here(st, Verdict::SoloBound(t, b));
                }
                return st;
            }
        }
        st.threads[me].call_points += 1;
        if let Policy::StallCall { victim, kind, nth, hold, .. } = &st.cfg.schedule.policy {
            let th = &st.threads[me];
            if *victim as usize == me && th.activity.kind == *kind && !th.stall_done && th.call_points == *nth as u32 + 1 {
                let release = if *hold > 0 { Some(st.step + 16 * *hold as u64) } else { None };
                st.threads[me].stalled = true;
                st.threads[me].stall_done = true;
                st.stall_release_at = release;
            }
        }
        if let Some((v, k)) = st.cfg.freeze {
            if v == me && st.threads[me].steps == k && st.cfg.freeze_holds {
                // same mechanism as Policy::StallCall without a release time
                st.threads[me].stalled = true;
                st.stall_release_at = None;
            } else if v == me && st.threads[me].steps == k {
                // never returns normally: the thread is unwound when the execution is torn down
                return self.block(st, me, Block::Frozen);
            }
        }
        if st.cfg.fut_quiet_bound > 0 {
            // StartSend, PollComplete, Poll (CallKind codes)
            let k = st.threads[me].activity.kind;
            if k == 2 || k == 3 || k == 13 {
                // in total: every further turn of poll's retry loop needs a value that became ready
                // and was then taken by a sibling, so one call makes at most (values + 1) turns of
                // at most the spin budget each; eight times the quiet bound is far beyond that in
                // scenarios of at most 30 values (two tasks spinning side by side reset each
                // other's quiet counters with their pins, so the quiet bound alone is not enough)
                if st.threads[me].call_points as u64 > 8 * st.cfg.fut_quiet_bound {
                    let b = 8 * st.cfg.fut_quiet_bound;
                    self.abort_here(st, Verdict::TryOpSpins(me, b));
                }
                let foreign = st.changes_total - st.threads[me].own_changes;
                let th = &mut st.threads[me];
                if foreign != th.call_seen_foreign {
                    th.call_seen_foreign = foreign;
                    th.call_quiet = 0;
                } else {
                    th.call_quiet += 1;
                    if th.call_quiet > st.cfg.fut_quiet_bound {
                        let b = st.cfg.fut_quiet_bound;
                        self.abort_here(st, Verdict::TryOpSpins(me, b));
                    }
                }
            }
        }
        if st.cfg.try_quiet_bound > 0 {
            // TrySend, TryRecv, TryView, TryIterNext (CallKind codes)
            let k = st.threads[me].activity.kind;
            if k == 1 || k == 7 || k == 9 || k == 11 {
                let foreign = st.changes_total - st.threads[me].own_changes;
                let th = &mut st.threads[me];
                if foreign != th.call_seen_foreign {
                    th.call_seen_foreign = foreign;
                    th.call_quiet = 0;
                } else {
                    th.call_quiet += 1;
                    let cq = th.call_quiet;
                    if cq > st.max_try_quiet {
                        st.max_try_quiet = cq;
                    }
                    if cq > st.cfg.try_quiet_bound {
                        let b = st.cfg.try_quiet_bound;
                        self.abort_here(st, Verdict::TryOpSpins(me, b));
                    }
                }
            }
        }
        st.pending_addr = if addr == ADDR_PAYLOAD { TARGET_PAYLOAD as usize } else { st.addr_index(addr) };
        if trace_on() {
            eprintln!("  [{:>5}] t{} addr#{} act={:?}", st.step, me, st.pending_addr, st.threads[me].activity.kind);
        }
        let sy = st.cfg.spin_yield;
        let th = &mut st.threads[me];
        th.ro_streak += 1;
        if th.ro_streak >= sy {
            th.yielded = true;
            th.ro_streak = 0;
        }
        match st.pick(me) {
            Some(n) => self.switch_to(st, me, n),
            None => unreachable!("running thread is runnable"),
        }
    }

    /// The running thread has just become blocked: run somebody else until it is woken.
    fn block<'a>(&'a self, mut st: MutexGuard<'a, State>, me: usize, why: Block) -> MutexGuard<'a, State> {
        if let Some(s) = st.solo.as_ref() {
            if s.tid == me {
                let t = s.tid;
                self.abort_here(st, Verdict::SoloBlocked(t));
            }
        }
        st.threads[me].state = TState::Blocked(why);
        st.threads[me].ro_streak = 0;
        loop {
            match st.pick(me) {
                Some(n) => {
                    debug_assert!(n != me);
                    st.switches += 1;
                    st.current = n;
                    self.cvs[n].notify_all();
                    while st.current != me && st.abort.is_none() {
                        st = self.cvs[me].wait(st).unwrap_or_else(|p| p.into_inner());
                    }
                    if st.abort.is_some() {
                        drop(st);
                        unwind_for_teardown();
                    }
                    debug_assert!(st.threads[me].state == TState::Runnable);
                    return st;
                }
                None => {
                    self.abort_here(st, Verdict::Deadlock);
                }
            }
        }
    }

    // ---- harness-level API -------------------------------------------------------------

    /// Runs `main` as managed thread 0 under `cfg` and returns the outcome once every managed
    /// thread has finished (or the execution was torn down and all threads have unwound).
    pub fn run<F: FnOnce() + Send + 'static>(&self, cfg: ExecCfg, main: F) -> Outcome {
        assert!(current_tid().is_none(), "run() must be called from an unmanaged thread");
        PASS_THROUGH_OPS.store(0, std::sync::atomic::Ordering::Relaxed);
        HEARTBEAT.fetch_add(1, std::sync::atomic::Ordering::Relaxed);
        EXECUTING.store(true, std::sync::atomic::Ordering::Relaxed);
        {
            let mut st = self.lock();
            let exec_no = st.exec_no + 1;
            *st = State::new();
            st.exec_no = exec_no;
            st.active = true;
            if let Policy::Pct { prio, .. } = &cfg.schedule.policy {
                for i in 0..MAX_THREADS {
                    st.pct_prio[i] = prio.get(i).copied().unwrap_or(0) as i32 + 1000;
                }
            }
            st.cfg = cfg;
            for _ in 0..MAX_THREADS {
                st.threads.push(Th {
                    state: TState::Idle,
                    yielded: false,
                    stalled: false,
                    touches: 0,
                    ro_streak: 0,
                    notified: false,
                    steps: 0,
                    in_call: false,
                    activity: Act::default(),
                    own_changes: 0,
                    call_seen_foreign: 0,
                    call_quiet: 0,
                    call_points: 0,
                    stall_done: false,
                });
            }
            st.threads[0].state = TState::Runnable;
            st.live = 1;
            st.current = 0;
        }
        self.jobs.lock().unwrap()[0].send(Box::new(main)).unwrap();
        let mut st = self.lock();
        while !(st.complete || (st.abort.is_some() && st.live == 0)) {
            st = self.done.wait(st).unwrap_or_else(|p| p.into_inner());
        }
        st.active = false;
        EXECUTING.store(false, std::sync::atomic::Ordering::Relaxed);
        HEARTBEAT.fetch_add(1, std::sync::atomic::Ordering::Relaxed);
        let verdict = st.abort.clone().unwrap_or(Verdict::Completed);
        let threads = if st.abort.is_some() {
            std::mem::take(&mut st.stuck)
        } else {
            st.snapshot()
        };
        let out = Outcome {
            verdict,
            steps: st.step,
            decisions: st.decisions,
            switches: st.switches,
            preempt_in_call: st.preempt_in_call,
            trace: std::mem::take(&mut st.trace),
            threads,
            faults: std::mem::take(&mut st.faults),
            max_solo: st.max_solo,
            max_try_quiet: st.max_try_quiet,
            frees: st.frees,
            allocs: st.allocs,
            weak_fail_injected: st.weak_fail_injected,
            reclaim_batches: st.reclaim_batches,
            reclaim_batches_concurrent: st.reclaim_batches_concurrent,
        };
        // release quarantined blocks
        let freed = std::mem::take(&mut st.freed);
        st.live_allocs.clear();
        drop(st);
        for (addr, (bytes, align)) in freed {
            if bytes > 0 {
                unsafe {
                    std::alloc::dealloc(
                        addr as *mut u8,
                        std::alloc::Layout::from_size_align_unchecked(bytes, align),
                    );
                }
            }
        }
        out
    }

    /// Starts a new managed thread running `f`; returns its id.
    pub fn spawn<F: FnOnce() + Send + 'static>(&self, f: F) -> usize {
        let tid;
        {
            let mut st = self.lock();
            assert!(st.active);
            tid = st
                .threads
                .iter()
                .position(|t| t.state == TState::Idle)
                .expect("too many managed threads");
            st.threads[tid].state = TState::Runnable;
            st.live += 1;
            st.mark_change();
        }
        self.jobs.lock().unwrap()[tid].send(Box::new(f)).unwrap();
        tid
    }

    pub fn join(&self, tid: usize) {
        if let Some((me, st)) = self.enter() {
            if st.threads[tid].state != TState::Finished {
                let _st = self.block(st, me, Block::Join(tid));
            }
        }
    }

    /// A harness-level scheduling point.
    pub fn harness_point(&self, addr: usize) {
        let _nc = crate::mem::NoCount::new();
        if let Some((me, st)) = self.enter() {
            let _st = self.point(st, me, addr);
        }
    }

    /// Marks the running thread as yielding (the others go first) and schedules.
    pub fn harness_yield(&self) {
        let _nc = crate::mem::NoCount::new();
        if let Some((me, mut st)) = self.enter() {
            st.threads[me].yielded = true;
            let _st = self.point(st, me, ADDR_HARNESS);
        }
    }

    /// Logical clock: a unique, strictly increasing timestamp.
    pub fn tick(&self) -> u64 {
        let _nc = crate::mem::NoCount::new();
        let mut st = self.lock();
        st.step += 1;
        // ticks are not memory operations: do not let them trigger the livelock rule
        st.last_change += 1;
        st.step
    }

    pub fn now(&self) -> u64 {
        self.lock().step
    }

    /// true while the running managed thread is inside a call into the crate
    pub fn in_call(&self) -> bool {
        match current_tid() {
            Some(me) => {
                let st = self.lock();
                st.active && st.threads[me].in_call
            }
            None => false,
        }
    }

    pub fn set_in_call(&self, v: bool) {
        if let Some(me) = current_tid() {
            let mut st = self.lock();
            if st.active {
                st.threads[me].in_call = v;
            }
        }
    }

    pub fn set_activity(&self, a: Act) {
        let _nc = crate::mem::NoCount::new();
        if let Some(me) = current_tid() {
            let mut st = self.lock();
            if st.active {
                st.threads[me].activity = a;
                st.threads[me].in_call = a.kind != 0 && a.kind < 100;
                st.threads[me].call_quiet = 0;
                st.threads[me].call_points = 0;
                st.threads[me].call_seen_foreign = st.changes_total - st.threads[me].own_changes;
            }
        }
    }

    pub fn note_progress(&self) {
        let mut st = self.lock();
        st.mark_change();
    }

    pub fn new_gate(&self) -> usize {
        let mut st = self.lock();
        st.gates.push(false);
        st.gates.len() - 1
    }

    pub fn ensure_gates(&self, n: usize) {
        let mut st = self.lock();
        while st.gates.len() < n {
            st.gates.push(false);
        }
    }

    pub fn gate_open(&self, g: usize) {
        let _nc = crate::mem::NoCount::new();
        let mut st = self.lock();
        if !st.active {
            return;
        }
        while st.gates.len() <= g {
            st.gates.push(false);
        }
        if !st.gates[g] {
            st.gates[g] = true;
            st.mark_change();
            st.wake_where(|b| *b == Block::Gate(g));
        }
    }

    pub fn gate_wait(&self, g: usize) {
        if let Some((me, mut st)) = self.enter() {
            while st.gates.len() <= g {
                st.gates.push(false);
            }
            if !st.gates[g] {
                let _st = self.block(st, me, Block::Gate(g));
            }
        }
    }

    /// Futures task parking: returns when the task has been notified.
    pub fn park(&self) {
        let _nc = crate::mem::NoCount::new();
        if let Some((me, mut st)) = self.enter() {
            if st.threads[me].notified {
                st.threads[me].notified = false;
                return;
            }
            let mut st = self.block(st, me, Block::Park);
            st.threads[me].notified = false;
        }
    }

    /// Was the task notified since the flag was last cleared?  (does not clear)
    pub fn is_notified(&self, tid: usize) -> bool {
        self.lock().threads[tid].notified
    }

    pub fn clear_notified(&self, tid: usize) {
        self.lock().threads[tid].notified = false;
    }

    pub fn unpark(&self, tid: usize) {
        let _nc = crate::mem::NoCount::new();
        let mut st = self.lock();
        if !st.active || tid >= st.threads.len() {
            return;
        }
        st.threads[tid].notified = true;
        if st.threads[tid].state == TState::Blocked(Block::Park) {
            st.threads[tid].state = TState::Runnable;
        }
        st.mark_change();
    }

    /// Runs `f` with every other thread frozen; the call must finish within `bound` points.
    pub fn solo<R, F: FnOnce() -> R>(&self, bound: u64, f: F) -> R {
        let me = match current_tid() {
            Some(m) => m,
            None => return f(),
        };
        {
            let mut st = self.lock();
            st.solo = Some(Solo {
                tid: me,
                bound,
                used: 0,
            });
            let mid = st
                .threads
                .iter()
                .enumerate()
                .filter(|(i, t)| *i != me && t.in_call && matches!(t.state, TState::Runnable | TState::Blocked(_)))
                .count();
            st.last_solo_midcall = mid;
            st.last_solo_used = 0;
        }
        let r = f();
        {
            let mut st = self.lock();
            if let Some(s) = st.solo.take() {
                if s.used > st.max_solo {
                    st.max_solo = s.used;
                }
                st.last_solo_used = s.used;
            }
            st.mark_change();
        }
        r
    }

    pub fn record_fault(&self, msg: String) {
        let _nc = crate::mem::NoCount::new();
        let mut st = self.lock();
        if st.faults.len() < 16 {
            st.faults.push(msg);
        }
    }

    /// (number of other threads frozen inside an API call, points used) of the last solo run
    pub fn last_solo(&self) -> (usize, u64) {
        let st = self.lock();
        (st.last_solo_midcall, st.last_solo_used)
    }

    pub fn exec_no(&self) -> u64 {
        self.lock().exec_no
    }

    pub fn alloc_counts(&self) -> (u64, u64) {
        let st = self.lock();
        (st.allocs, st.frees)
    }
}

impl Runtime for Sched {
    fn manages_current_thread(&self) -> bool {
        if current_tid().is_none() {
            return false;
        }
        let st = self.lock();
        st.active && st.abort.is_none()
    }

    fn before_op(&self, _kind: OpKind, addr: usize) {
        let _nc = crate::mem::NoCount::new();
        if let Some((me, st)) = self.enter() {
            if addr != 0 {
                if let Some(f) = st.check_uaf(addr) {
                    let mut st = st;
                    let act = st.threads[me].activity;
                    let msg = format!("UseAfterFree: atomic {} by thread {} during {:?}", f, me, act);
                    st.faults.push(msg.clone());
                    self.abort_here(st, Verdict::Fault(msg));
                }
            }
            if trace_on() {
                eprintln!("      t{} {:?}", me, _kind);
            }
            let _st = self.point(st, me, addr);
        }
    }

    fn after_op(&self, _kind: OpKind, _addr: usize, changed: bool) {
        let _nc = crate::mem::NoCount::new();
        if !changed {
            return;
        }
        if let Some(me) = current_tid() {
            let mut st = self.lock();
            if st.active && st.abort.is_none() {
                st.threads[me].ro_streak = 0;
                st.threads[me].own_changes += 1;
                st.mark_change();
            }
        }
    }

    fn weak_cas_may_fail(&self) -> bool {
        let _nc = crate::mem::NoCount::new();
        if current_tid().is_none() {
            return false;
        }
        let mut st = self.lock();
        if !st.active || st.abort.is_some() || !st.cfg.weak_cas_fail || st.solo.is_some() {
            return false;
        }
        st.weak_cas_seen += 1;
        // at most one injected failure per 4 weak CASes, driven by the schedule bytes
        if st.weak_cas_seen % 4 != 0 {
            return false;
        }
        match st.next_byte() {
            Some(b) if b >= 192 => {
                st.weak_fail_injected += 1;
                true
            }
            _ => false,
        }
    }

    fn mutex_lock(&self, addr: usize) {
        let _nc = crate::mem::NoCount::new();
        if let Some((me, st)) = self.enter() {
            let mut st = self.point(st, me, addr);
            loop {
                if let Some(pos) = st.mutexes.iter().position(|(a, _)| *a == addr) {
                    if st.mutexes[pos].1 == me {
                        // re-entrant acquisition would deadlock the real mutex
                        self.abort_here(st, Verdict::Deadlock);
                    }
                    st = self.block(st, me, Block::Mutex(addr));
                } else {
                    st.mutexes.push((addr, me));
                    return;
                }
            }
        }
    }

    fn mutex_try_lock(&self, addr: usize) -> bool {
        let _nc = crate::mem::NoCount::new();
        if let Some((me, st)) = self.enter() {
            let mut st = self.point(st, me, addr);
            if st.mutexes.iter().any(|(a, _)| *a == addr) {
                false
            } else {
                st.mutexes.push((addr, me));
                true
            }
        } else {
            // teardown / unmanaged: fall back to the real primitive's answer
            true
        }
    }

    fn mutex_unlock(&self, addr: usize) {
        let _nc = crate::mem::NoCount::new();
        if current_tid().is_none() {
            return;
        }
        let mut st = self.lock();
        if !st.active {
            return;
        }
        if let Some(pos) = st.mutexes.iter().position(|(a, _)| *a == addr) {
            st.mutexes.swap_remove(pos);
        }
        st.wake_where(|b| *b == Block::Mutex(addr));
    }

    fn cond_wait(&self, cv: usize, mutex: usize) {
        let _nc = crate::mem::NoCount::new();
        if let Some((me, mut st)) = self.enter() {
            if let Some(pos) = st.mutexes.iter().position(|(a, _)| *a == mutex) {
                st.mutexes.swap_remove(pos);
            }
            st.wake_where(|b| *b == Block::Mutex(mutex));
            let mut st = self.block(st, me, Block::Cond { cv, mutex });
            // re-acquire the mutex in the model
            loop {
                if st.mutexes.iter().any(|(a, _)| *a == mutex) {
                    st = self.block(st, me, Block::Mutex(mutex));
                } else {
                    st.mutexes.push((mutex, me));
                    return;
                }
            }
        }
    }

    fn cond_notify_all(&self, cv: usize) {
        let _nc = crate::mem::NoCount::new();
        if current_tid().is_none() {
            return;
        }
        let mut st = self.lock();
        if !st.active {
            return;
        }
        st.wake_where(|b| matches!(b, Block::Cond { cv: c, .. } if *c == cv));
    }

    fn yield_now(&self) {
        let _nc = crate::mem::NoCount::new();
        match self.enter() {
            Some((me, mut st)) => {
                st.threads[me].yielded = true;
                let _st = self.point(st, me, ADDR_HARNESS);
            }
            None => verif_hooks::real_yield_now(),
        }
    }

    fn sleep(&self) {
        self.yield_now()
    }

    fn touch(&self, addr: usize) {
        let _nc = crate::mem::NoCount::new();
        if let Some((me, st)) = self.enter() {
            // a thread can be pre-empted between loading a pointer and dereferencing it
            let mut st = st;
            st.threads[me].touches += 1;
            if let Policy::Stall { victim, nth, .. } = &st.cfg.schedule.policy {
                if *victim as usize == me && st.threads[me].touches == *nth as u32 + 1 {
                    st.threads[me].stalled = true;
                }
            }
            let st = self.point(st, me, ADDR_TOUCH);
            if let Some(f) = st.check_uaf(addr) {
                let mut st = st;
                let act = st.threads[me].activity;
                let msg = format!("UseAfterFree: dereference {} by thread {} during {:?}", f, me, act);
                st.faults.push(msg.clone());
                self.abort_here(st, Verdict::Fault(msg));
            }
        }
    }

    fn on_alloc(&self, addr: usize, bytes: usize, align: usize) {
        let _nc = crate::mem::NoCount::new();
        let mut st = self.lock();
        if !st.active {
            return;
        }
        st.allocs += 1;
        if st.cfg.quarantine {
            st.live_allocs.insert(addr, (bytes, align));
        }
    }

    fn on_dealloc(&self, addr: usize, bytes: usize, align: usize) -> bool {
        let _nc = crate::mem::NoCount::new();
        let mut st = self.lock();
        if !st.active {
            return false;
        }
        st.frees += 1;
        st.consecutive_frees += 1;
        if st.consecutive_frees == 6 {
            // several deallocations with no shared-memory operation in between: a deferred batch
            st.reclaim_batches += 1;
            let me = current_tid().unwrap_or(usize::MAX);
            if st
                .threads
                .iter()
                .enumerate()
                .any(|(i, t)| i != me && t.in_call && t.state != TState::Finished)
            {
                st.reclaim_batches_concurrent += 1;
            }
        }
        if !st.cfg.quarantine {
            return false;
        }
        if st.freed.contains_key(&addr) {
            let msg = format!("DoubleFree: block of {} bytes freed twice", bytes);
            st.faults.push(msg.clone());
            if st.abort.is_none() {
                st.set_abort(Verdict::Fault(msg));
                self.wake_all();
            }
            return true;
        }
        match st.live_allocs.remove(&addr) {
            Some((b, _)) if b == bytes => {}
            Some((b, _)) => {
                let msg = format!("InvalidFree: block allocated with {} bytes freed with {}", b, bytes);
                st.faults.push(msg);
            }
            None => {
                // allocated before the execution started (cannot happen: queues are created inside)
                return false;
            }
        }
        st.freed.insert(addr, (bytes, align));
        true
    }
}
