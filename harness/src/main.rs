#![allow(dead_code)]
mod rt;
mod payload;
mod handles;
mod model;
mod ops;
use handles::*;
use ops::*;
use rt::*;

fn main(){
    let q = QCfg{flavour: Flavour::Broadcast, futures:false, cap:2, wait: WaitKind::Block(0,0), fut_spins:None};
    // sequential
    let sc = Scenario{ q, progs: vec![Prog{ops: vec![Op::TrySend{tx:0},Op::TrySend{tx:0},Op::TrySend{tx:0},Op::TryRecv{rx:0},Op::AddStream{rx:0},Op::TryRecv{rx:0},Op::TryRecv{rx:40000},Op::TryRecv{rx:0}, Op::DropTx{tx:0}, Op::TryRecv{rx:0}, Op::Recv{rx:40000}, Op::Recv{rx:40000}], ret:false}], sched: Schedule::none(), opts: ExecOpts{model:true, solo_base: Some(500), ..Default::default()} };
    let e = run_scenario(&sc);
    println!("{:?} steps={} viol={:?}", e.outcome.verdict, e.outcome.steps, e.viol);
    for c in &e.calls { println!("  {:?}", c); }
    println!("ledger {:?}", e.ledger);
    // concurrent: producer thread + consumer thread
    let t0 = std::time::Instant::now();
    let mut total_steps=0;
    for seed in 0..2000u32 {
        let bytes: Vec<u8> = (0..200).map(|i| ((seed.wrapping_mul(2654435761).wrapping_add(i*40503)) >> 13) as u8).collect();
        let sc = Scenario{ q, progs: vec![
            Prog{ops: vec![Op::CloneRx{rx:0}, Op::Spawn{prog:1, tx:vec![0], rx:vec![]}, Op::Spawn{prog:2, tx:vec![], rx:vec![0]}, Op::Drain{rx:0, how:DrainHow::Blocking, extra:1}, Op::JoinAll], ret:false},
            Prog{ops: (0..6).map(|_| Op::Send{tx:0,max:0}).collect(), ret:false},
            Prog{ops: vec![Op::Drain{rx:0, how:DrainHow::Try, extra:1}], ret:false},
        ], sched: Schedule{policy: Policy::Walk{stay:200,target:None,stay_target:0}, bytes}, opts: ExecOpts::default() };
        let e = run_scenario(&sc);
        total_steps += e.outcome.steps;
        if e.outcome.verdict != Verdict::Completed || !e.viol.is_empty() || !e.ledger.events.is_empty() || !e.ledger.live_at_end.is_empty() || seed==0 {
            println!("seed {} {:?} steps={} switches={} viol={:?} ledger={:?}", seed, e.outcome.verdict, e.outcome.steps, e.outcome.switches, e.viol, e.ledger);
            for t in &e.outcome.threads { println!("   {:?}", t); }
            if seed != 0 { for c in &e.calls { println!("  {:?}", c); } break; }
        }
    }
    println!("2000 execs in {:?}, avg steps {}", t0.elapsed(), total_steps/2000);
}
