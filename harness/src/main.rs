#![allow(dead_code)]
use mqv::{mem, props, rt, runner};

use runner::{KnownFile, Tier, ViolationReport};

#[global_allocator]
static GLOBAL: mem::CountingAlloc = mem::CountingAlloc;
use std::collections::BTreeMap;

fn arg<'a>(args: &'a [String], name: &str) -> Option<&'a str> {
    args.iter()
        .position(|a| a == name)
        .and_then(|i| args.get(i + 1))
        .map(|s| s.as_str())
}

fn load_known(path: Option<&str>) -> KnownFile {
    match path {
        Some(p) => match std::fs::read_to_string(p) {
            Ok(s) => serde_json::from_str(&s).unwrap_or_else(|e| {
                eprintln!("cannot parse {}: {}", p, e);
                std::process::exit(2)
            }),
            Err(_) => KnownFile::default(),
        },
        None => KnownFile::default(),
    }
}

fn main() {
    let args: Vec<String> = std::env::args().collect();
    if args.len() < 2 {
        eprintln!("usage: mqv run|replay|list ...");
        std::process::exit(2);
    }
    let reg = props::registry();
    match args[1].as_str() {
        "list" => {
            for d in &reg {
                println!("{} parts={:?}", d.id, d.parts.iter().map(|p| p.name).collect::<Vec<_>>());
            }
        }
        "run" => {
            let prop = arg(&args, "--prop").expect("--prop");
            let tier = match arg(&args, "--tier").unwrap_or("quick") {
                "thorough" => Tier::Thorough,
                _ => Tier::Quick,
            };
            let seed: u64 = arg(&args, "--seed").and_then(|s| s.parse().ok()).unwrap_or(0);
            let (shard, nshards) = match arg(&args, "--shard") {
                Some(s) => {
                    let mut it = s.split('/');
                    (
                        it.next().unwrap().parse::<u32>().unwrap(),
                        it.next().unwrap().parse::<u32>().unwrap(),
                    )
                }
                None => (0, 1),
            };
            let scale: f64 = arg(&args, "--scale").and_then(|s| s.parse().ok()).unwrap_or(1.0);
            let known = load_known(arg(&args, "--known"));
            let def = match reg.iter().find(|d| d.id == prop) {
                Some(d) => d,
                None => {
                    eprintln!("unknown property {}", prop);
                    std::process::exit(2);
                }
            };
            rt::sched();
            rt::start_hang_watchdog();
            let rep = runner::run_prop(def, tier, seed, shard, nshards, &known, arg(&args, "--part"), scale);
            let mut meta = BTreeMap::new();
            meta.insert("rule", serde_json::json!(def.rule));
            meta.insert("assumptions", serde_json::json!(def.assumptions));
            let out = serde_json::json!({"report": rep, "meta": meta});
            match arg(&args, "--out") {
                Some(p) => std::fs::write(p, serde_json::to_string(&out).unwrap()).unwrap(),
                None => println!("{}", serde_json::to_string_pretty(&out).unwrap()),
            }
        }
        "meta" => {
            let prop = arg(&args, "--prop").expect("--prop");
            let def = reg.iter().find(|d| d.id == prop).expect("unknown property");
            println!("{}", serde_json::json!({"rule": def.rule, "assumptions": def.assumptions}));
        }
        "gencorpus" => {
            // writes scenarios sampled from a part's generator as JSON files (seed corpus of the fuzzer)
            use proptest::strategy::{Strategy, ValueTree};
            use proptest::test_runner::{Config, RngAlgorithm, TestRng, TestRunner};
            let prop = arg(&args, "--prop").expect("--prop");
            let dir = arg(&args, "--dir").expect("--dir");
            let n: usize = arg(&args, "--n").and_then(|s| s.parse().ok()).unwrap_or(64);
            let seed: u64 = arg(&args, "--seed").and_then(|s| s.parse().ok()).unwrap_or(0);
            let def = reg.iter().find(|d| d.id == prop).expect("unknown property");
            std::fs::create_dir_all(dir).unwrap();
            let mut k = 0;
            for part in &def.parts {
                let strategy = match &part.source {
                    runner::Source::Random { strategy, .. } | runner::Source::Systematic { strategy, .. } => *strategy,
                    _ => continue,
                };
                if let Some(p) = arg(&args, "--part") {
                    if p != part.name {
                        continue;
                    }
                }
                let mut sb = [0u8; 32];
                sb[..8].copy_from_slice(&seed.to_le_bytes());
                sb[8] = k as u8;
                let mut r = TestRunner::new_with_rng(Config::default(), TestRng::from_seed(RngAlgorithm::ChaCha, &sb));
                let st = strategy(Tier::Quick);
                for i in 0..n {
                    if let Ok(t) = st.new_tree(&mut r) {
                        let sc = t.current();
                        if !runner::fuzz_sane(&sc) {
                            continue;
                        }
                        let body = serde_json::json!({"part": part.name, "scenario": sc});
                        std::fs::write(format!("{}/{}-{}-{}.json", dir, prop, part.name, i), serde_json::to_string(&body).unwrap()).unwrap();
                    }
                }
                k += 1;
            }
        }
        "replay" => {
            let file = arg(&args, "--file").expect("--file");
            let known = load_known(arg(&args, "--known"));
            let text = std::fs::read_to_string(file).unwrap_or_else(|e| {
                eprintln!("cannot read {}: {}", file, e);
                std::process::exit(2)
            });
            let v: serde_json::Value = serde_json::from_str(&text).unwrap();
            let prop = v["property"].as_str().unwrap_or("").to_string();
            let vr: ViolationReport = serde_json::from_value(v["case"].clone()).unwrap_or_else(|e| {
                eprintln!("bad replay file: {}", e);
                std::process::exit(2)
            });
            let def = reg.iter().find(|d| d.id == prop).unwrap_or_else(|| {
                eprintln!("unknown property {}", prop);
                std::process::exit(2)
            });
            rt::sched();
            rt::start_hang_watchdog();
            let (findings, ex, known_hits) = runner::replay(def, &vr, &known);
            let same_trace = runner::rle(&ex.outcome.trace) == vr.trace_rle;
            let out = serde_json::json!({
                "property": prop,
                "findings": findings,
                "known_findings_matched": known_hits,
                "verdict": format!("{:?}", ex.outcome.verdict),
                "same_trace_as_recorded": same_trace,
                "calls": ex.calls.len(),
            });
            println!("{}", serde_json::to_string_pretty(&out).unwrap());
            if arg(&args, "--verbose").is_some() || args.iter().any(|a| a == "-v") {
                for c in &ex.calls {
                    println!("  {:?}", c);
                }
                for t in &ex.outcome.threads {
                    println!("  thread {:?}", t);
                }
                println!("  ledger {:?}", ex.ledger);
                println!("  mem {:?} samples {:?} reclaim_batches {} frees {} allocs {}", ex.mem, ex.stats.mem_samples, ex.outcome.reclaim_batches, ex.outcome.frees, ex.outcome.allocs);
            }
            std::process::exit(if findings.is_empty() { 0 } else { 1 });
        }
        other => {
            eprintln!("unknown command {}", other);
            std::process::exit(2);
        }
    }
}
