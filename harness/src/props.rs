//! The property registry: generator profiles, oracles, non-trivial rules, budgets.

use crate::gen::{self, FutMode, TrafficParams, BCAST, BOTH};
use crate::handles::{Flavour, RecvOut, SendOut};
use crate::ops::{CallKind, ExecOpts, Execution, Op, Prog, Res, Scenario};
use crate::oracles::{self as orc, Finding, Hist};
use crate::rt::{Schedule, Verdict};
use crate::runner::{CaseInfo, Part, PropDef, Source, Tier};
use proptest::collection::vec;
use proptest::prelude::*;

const SOLO_BASE: u64 = 400;
const SOLO_PER_SPIN: u64 = 60;

pub fn seq_opts() -> ExecOpts {
    ExecOpts {
        model: true,
        solo_base: Some(SOLO_BASE),
        solo_per_spin: SOLO_PER_SPIN,
        max_steps: 2_000_000,
        ..ExecOpts::default()
    }
}

/// thorough runs use longer programs and schedules
fn scaled(p: TrafficParams, t: Tier) -> TrafficParams {
    if t == Tier::Thorough {
        TrafficParams { max_values: p.max_values * 2, ..p }
    } else {
        p
    }
}

fn sched_len(t: Tier, quick: usize) -> usize {
    if t == Tier::Thorough {
        quick * 3
    } else {
        quick
    }
}

fn conc_opts() -> ExecOpts {
    ExecOpts::default()
}

/// concurrent scenarios on futures queues in which poll / start_send / poll_complete are bound in
/// their own steps (C15: they never wait inside the call; C14: a task that spins inside poll never
/// parks and is never the subject of a notification)
fn fut_conc_opts() -> ExecOpts {
    ExecOpts { fut_quiet: true, ..ExecOpts::default() }
}

// ---- classification helpers ----------------------------------------------------------------

fn cfg_classes(sc: &Scenario, info: &mut CaseInfo) {
    info.class(format!("flavour={:?}", sc.q.flavour));
    info.class(format!("handles={}", if sc.q.futures { "futures" } else { "plain" }));
    info.class(format!("N={}", sc.q.n()));
    info.class(format!("requested_capacity={}", sc.q.requested()));
    if sc.q.futures {
        info.class(format!("fut_spins={:?}", sc.q.spins()));
    } else {
        info.class(format!("wait={:?}", sc.q.wait));
    }
    if sc.progs.len() > 1 {
        info.class(format!("threads={}", sc.progs.len()));
        info.class(format!(
            "policy={}",
            match &sc.sched.policy {
                crate::rt::Policy::Walk { target: Some(_), .. } => "targeted".to_string(),
                crate::rt::Policy::Walk { stay, .. } => format!("walk(stay<={})", stay),
                crate::rt::Policy::Pct { change, .. } => format!("pct(d={})", change.len()),
                crate::rt::Policy::Trace(_) => "trace".to_string(),
                crate::rt::Policy::Stall { .. } => "stall_at_dereference".to_string(),
                crate::rt::Policy::StallCall { .. } => "stall_inside_a_call".to_string(),
                crate::rt::Policy::Deviate(d) => format!("systematic(deviations={})", d.len()),
            }
        ));
    }
}

fn accepted(ex: &Execution) -> usize {
    ex.calls.iter().filter(|c| matches!(c.res, Res::Send(SendOut::Ok, _))).count()
}

/// do two calls of different programs overlap in logical time?
fn has_overlap(ex: &Execution) -> bool {
    let mut max_t1_by_prog: Vec<(u8, u64, u64)> = Vec::new();
    for c in &ex.calls {
        if !(c.kind.is_send() || c.kind.is_recv()) {
            continue;
        }
        for (p, t0, t1) in &max_t1_by_prog {
            if *p != c.prog && *t0 < c.t1 && *t1 > c.t0 {
                return true;
            }
        }
        if max_t1_by_prog.len() < 4096 {
            max_t1_by_prog.push((c.prog, c.t0, c.t1));
        }
    }
    false
}

fn conc_common(sc: &Scenario, ex: &Execution, info: &mut CaseInfo) -> (bool, bool) {
    cfg_classes(sc, info);
    let wrap = accepted(ex) > sc.q.n();
    let overlap = has_overlap(ex);
    info.class(format!("wrap={}", wrap));
    info.class(format!("overlap={}", overlap));
    info.class(format!("preempted_inside_call={}", ex.outcome.preempt_in_call > 0));
    if ex.outcome.verdict == Verdict::Budget {
        info.count("budget_inconclusive", 1);
    }
    (wrap, overlap)
}

/// stuck executions that no oracle explains are counted, never reported as violations
fn note_stuck(h: &Hist, info: &mut CaseInfo) -> Vec<Finding> {
    let rep = orc::stuck(h);
    if matches!(h.ex.outcome.verdict, Verdict::Deadlock | Verdict::Livelock) && rep.unexplained {
        info.count("stuck_unexplained", 1);
    }
    rep.findings
}

fn keep(fs: Vec<Finding>, kinds: &[&str]) -> Vec<Finding> {
    fs.into_iter().filter(|f| kinds.contains(&f.kind.as_str())).collect()
}

// ---- C09 -----------------------------------------------------------------------------------

fn seq_nontrivial(sc: &Scenario, ex: &Execution, info: &mut CaseInfo) -> bool {
    cfg_classes(sc, info);
    let n = sc.q.n();
    let wrap = accepted(ex) > n;
    let has = |k: CallKind| ex.calls.iter().any(|c| c.kind == k);
    let add_after_consumption = {
        let mut consumed = false;
        let mut r = false;
        for c in &ex.calls {
            if matches!(c.res, Res::Recv(RecvOut::Val(_))) {
                consumed = true;
            }
            if c.kind == CallKind::AddStream && consumed {
                r = true;
            }
        }
        r
    };
    let not_ready = ex.stats.not_ready_poll + ex.stats.not_ready_send > 0;
    let non_pow2 = (sc.q.requested() as usize) != n;
    let conv = has(CallKind::IntoSingle) || has(CallKind::IntoMulti);
    let removal = has(CallKind::DropRx) || has(CallKind::UnsubRx);
    info.class(format!("wrap={}", wrap));
    info.class(format!("len_bucket={}", match sc.progs[0].ops.len() { 0..=8 => "1-8", 9..=32 => "9-32", 33..=100 => "33-100", _ => ">100" }));
    if add_after_consumption {
        info.class("add_stream_after_consumption");
    }
    if not_ready {
        info.class("futures_not_ready_seen");
    }
    if ex.stats.poll_unwritten > 0 {
        info.class("poll_of_never_written_slot");
    }
    if conv {
        info.class("single_multi_conversion");
    }
    wrap && (add_after_consumption || not_ready || non_pow2 || conv || removal)
}

fn c09_oracle(sc: &Scenario, ex: &Execution, info: &mut CaseInfo) -> Vec<Finding> {
    info.nontrivial = seq_nontrivial(sc, ex, info);
    let h = Hist::build(sc, ex);
    let mut f = orc::verdict_findings(&h, true);
    f.extend(orc::interpreter_violations(&h, &["ModelMismatch", "HandBackMismatch"]));
    f
}

fn c09_random(t: Tier) -> BoxedStrategy<Scenario> {
    let max_len = if t == Tier::Quick { 200 } else { 400 };
    gen::seq_scenario(
        gen::qcfg(BOTH, FutMode::Mixed, gen::cap_wide(), gen::wait_any()),
        max_len,
        false,
        seq_opts(),
    )
}

/// C03 on large rings (sequential, against the model): requested capacities 255..131072; the queue
/// is filled to the brim and three sends over, a few values are taken and sent again (the Full
/// boundary is crossed a second time after the ring index wrapped), then everything is drained.
/// Optionally a second stream that lags (broadcast) so that the slowest stream is not the first.
fn c03_large_strategy(_t: Tier) -> BoxedStrategy<Scenario> {
    use crate::handles::{LARGE_CAPS, LARGE_CAP_BASE};
    let cap = (0..LARGE_CAPS.len() as u8).prop_map(|i| LARGE_CAP_BASE + i).boxed();
    (gen::qcfg(BOTH, FutMode::Mixed, cap, gen::wait_any()), 1u32..6, 1u32..6, any::<bool>(), any::<bool>())
        .prop_map(|(q, take, over, lagging, two_senders)| {
            let n = q.n() as u32;
            let a = 0u16;
            let mut ops = Vec::new();
            if two_senders {
                ops.push(Op::CloneTx { tx: a });
            }
            if lagging && q.flavour == Flavour::Broadcast {
                ops.push(Op::AddStream { rx: a });
            }
            ops.push(Op::Repeat { times: n + over, body: vec![Op::TrySend { tx: a }], sample_after: vec![] });
            ops.push(Op::Repeat { times: take, body: vec![Op::TryRecv { rx: a }], sample_after: vec![] });
            ops.push(Op::Repeat { times: take + over, body: vec![Op::TrySend { tx: 40000 }], sample_after: vec![] });
            ops.push(Op::Repeat { times: n + 1, body: vec![Op::TryRecv { rx: a }], sample_after: vec![] });
            ops.push(Op::Repeat { times: take + over, body: vec![Op::TrySend { tx: a }], sample_after: vec![] });
            ops.push(Op::Repeat { times: take + 1, body: vec![Op::TryRecv { rx: 40000 }], sample_after: vec![] });
            Scenario {
                q,
                progs: vec![Prog { ops, ret: false }],
                sched: Schedule::none(),
                // no per-call step bound: dropping the last handle of a large ring walks all its slots
                opts: ExecOpts { max_steps: 400_000_000, solo_base: None, ..seq_opts() },
            }
        })
        .boxed()
}

fn c03_large_oracle(sc: &Scenario, ex: &Execution, info: &mut CaseInfo) -> Vec<Finding> {
    let f = c09_oracle(sc, ex, info);
    // non-trivial: the ring was filled (a refusal) and wrapped (more accepted than slots)
    let refused = ex.calls.iter().any(|c| c.kind == CallKind::TrySend && matches!(c.res, Res::Send(SendOut::Full(_), _)));
    info.nontrivial = refused && accepted(ex) > sc.q.n();
    f
}

/// reduced alphabet for bounded-exhaustive enumeration
fn small_alphabet(futures: bool, bcast: bool) -> Vec<Op> {
    let a = 0u16; // first handle
    let b = 40000u16; // second handle (if two exist), else the first
    let mut v = vec![
        Op::TrySend { tx: a },
        Op::TryRecv { rx: a },
        Op::TryRecv { rx: b },
        Op::CloneRx { rx: a },
        Op::DropRx { rx: a },
        Op::UnsubRx { rx: b },
        Op::IntoSingle { rx: a },
        Op::IntoMulti { rx: a },
        Op::TryView { rx: a },
        Op::CloneTx { tx: a },
        Op::DropTx { tx: a },
    ];
    if bcast {
        v.push(Op::AddStream { rx: a });
    }
    if futures {
        v.push(Op::StartSend { tx: a, by_ref: false });
        v.push(Op::Poll { rx: a, by_ref: false });
        v.push(Op::Poll { rx: b, by_ref: true });
    }
    v
}

fn enumerate_seq(depth: usize, opts: ExecOpts, caps: &'static [u8]) -> Box<dyn Iterator<Item = Scenario>> {
    use crate::handles::{QCfg, WaitKind};
    let mut configs = Vec::new();
    for flavour in [Flavour::Broadcast, Flavour::Mpmc] {
        for futures in [false, true] {
            for cap in caps {
                configs.push(QCfg {
                    flavour,
                    futures,
                    cap: *cap,
                    wait: WaitKind::Block(0, 0),
                    fut_spins: if flavour == Flavour::Mpmc { None } else { Some((0, 0)) },
                });
            }
        }
    }
    let it = configs.into_iter().flat_map(move |q| {
        let alpha = small_alphabet(q.futures, q.flavour == Flavour::Broadcast);
        let k = alpha.len();
        let opts = opts.clone();
        (1..=depth).flat_map(move |d| {
            let total = k.pow(d as u32);
            let alpha = alpha.clone();
            let opts = opts.clone();
            (0..total).map(move |mut code| {
                let mut ops = Vec::with_capacity(d);
                for _ in 0..d {
                    ops.push(alpha[code % k].clone());
                    code /= k;
                }
                Scenario {
                    q,
                    progs: vec![Prog { ops, ret: false }],
                    sched: Schedule::none(),
                    opts: opts.clone(),
                }
            })
        })
    });
    Box::new(it)
}

fn c09_exhaustive(t: Tier) -> Box<dyn Iterator<Item = Scenario>> {
    enumerate_seq(if t == Tier::Quick { 4 } else { 5 }, seq_opts(), &[1, 2])
}

// ---- C13 -----------------------------------------------------------------------------------

fn c13_strategy(_t: Tier) -> BoxedStrategy<Scenario> {
    let q = gen::qcfg(BOTH, FutMode::Mixed, gen::cap_small(), gen::wait_any());
    let a = gen::SeqAlphabet { futures_ops: true, add_stream: true, teardown: false };
    let drops = vec(
        prop_oneof![
            any::<u16>().prop_map(|rx| Op::DropRx { rx }),
            any::<u16>().prop_map(|rx| Op::UnsubRx { rx }),
            (any::<u16>(), 0u8..2, any::<u8>()).prop_map(|(rx, max, variant)| Op::IntoIter { rx, max, variant }),
        ],
        9..=9,
    );
    let sends = vec(
        prop_oneof![
            any::<u16>().prop_map(|tx| Op::TrySend { tx }),
            (any::<u16>(), any::<bool>()).prop_map(|(tx, by_ref)| Op::StartSend { tx, by_ref }),
            any::<u16>().prop_map(|tx| Op::CloneTx { tx }),
            any::<u16>().prop_map(|tx| Op::PollComplete { tx }),
        ],
        1..6,
    );
    (q, vec(gen::seq_op(a), 0..30), drops, sends)
        .prop_map(|(q, mut ops, drops, sends)| {
            // make sure the senders survive the prefix: sender drops are removed from it;
            // no second stream on a move-out queue (defect D7)
            ops.retain(|o| !matches!(o, Op::DropTx { .. } | Op::UnsubTx { .. }));
            if q.flavour == Flavour::Mpmc {
                ops.retain(|o| !matches!(o, Op::AddStream { .. }));
            }
            ops.extend(drops);
            ops.extend(sends);
            Scenario {
                q,
                progs: vec![Prog { ops, ret: false }],
                sched: Schedule::none(),
                opts: seq_opts(),
            }
        })
        .boxed()
}

fn c13_oracle(sc: &Scenario, ex: &Execution, info: &mut CaseInfo) -> Vec<Finding> {
    cfg_classes(sc, info);
    let h = Hist::build(sc, ex);
    // non-trivial: a send was attempted after the last receiver was gone, and either several
    // receiver handles were dropped in non-creation order or values were still queued
    let removals: Vec<u32> = ex
        .calls
        .iter()
        .filter(|c| matches!(c.kind, CallKind::DropRx | CallKind::UnsubRx))
        .map(|c| c.handle)
        .collect();
    let out_of_order = removals.windows(2).any(|w| w[0] > w[1]);
    let all_gone = h.streams.values().all(|s| s.handles.values().all(|x| x.2 != u64::MAX));
    let last_gone = h
        .streams
        .values()
        .flat_map(|s| s.handles.values().map(|x| x.2))
        .max()
        .unwrap_or(0);
    let sends_after = ex.calls.iter().filter(|c| c.kind.is_send() && c.t0 > last_gone).count();
    let queued = h.acc.len() > h.streams.values().map(|s| s.deliveries.len()).min().unwrap_or(0);
    info.class(format!("receiver_handles_dropped={}", removals.len().min(6)));
    info.class(format!("values_still_queued={}", queued));
    info.class(format!("streams={}", h.streams.len().min(4)));
    info.nontrivial = all_gone && sends_after > 0 && (out_of_order || queued || removals.len() >= 2);
    let mut f = orc::no_receivers(&h);
    f.extend(orc::verdict_findings(&h, true));
    f
}

fn c13_conc_strategy(_t: Tier) -> BoxedStrategy<Scenario> {
    // a sink task that is parking while other threads drop the receivers
    let q = gen::qcfg(BOTH, FutMode::Always, prop_oneof![Just(1u8), Just(2u8)].boxed(), gen::wait_any());
    (q, 0u8..3, 1usize..=2, any::<bool>(), gen::schedule(300), vec(any::<bool>(), 3), vec(0u8..3, 3), vec(prop_oneof![3 => Just(0u8), 1 => Just(1u8), 1 => Just(2u8)], 2)).prop_map(
        |(q, extra_rx, droppers, two_sinks, sched, unsub, conv, adds)| {
            let n = q.n();
            let mut main = Vec::new();
            for _ in 0..n {
                main.push(Op::TrySend { tx: 0 });
            }
            // receiver handles: initial + clones / streams
            let mut nrx = 1;
            for k in 0..extra_rx {
                if k % 2 == 0 || q.flavour == Flavour::Mpmc {
                    main.push(Op::CloneRx { rx: 0 });
                } else {
                    main.push(Op::AddStream { rx: 0 });
                }
                nrx += 1;
            }
            if two_sinks {
                main.push(Op::CloneTx { tx: 0 });
            }
            let mut progs = vec![Prog { ops: vec![], ret: false }];
            let nsinks = if two_sinks { 2 } else { 1 };
            for _ in 0..nsinks {
                let p = progs.len() as u8;
                main.push(Op::Spawn { prog: p, tx: vec![0], rx: vec![] });
                progs.push(Prog {
                    ops: vec![Op::SinkSend { tx: 0 }, Op::SinkSend { tx: 0 }],
                    ret: false,
                });
            }
            // distribute the receivers over the dropper threads
            let per = (nrx + droppers - 1) / droppers;
            let mut left = nrx;
            for d in 0..droppers {
                let take = per.min(left);
                if take == 0 {
                    break;
                }
                left -= take;
                let p = progs.len() as u8;
                main.push(Op::Spawn { prog: p, tx: vec![], rx: vec![0; take] });
                let mut ops = Vec::new();
                // streams added and removed again while the other dropper removes its streams:
                // the two replacements of the stream list collide (round-5 seed C13-6)
                for _ in 0..adds[d % 2] {
                    ops.push(Op::WithNewStream { rx: 0, unsub: false });
                }
                for k in 0..take {
                    // the handle may leave as a single-consumer receiver (its own Drop impl);
                    // the conversion is refused, and the handle kept as it is, while the stream
                    // has other handles
                    if conv[(d + k) % 3] == 0 {
                        ops.push(Op::IntoSingle { rx: 0 });
                    }
                    if unsub[(d + k) % 3] {
                        ops.push(Op::UnsubRx { rx: 0 });
                    } else {
                        ops.push(Op::DropRx { rx: 0 });
                    }
                }
                progs.push(Prog { ops, ret: false });
            }
            main.push(Op::JoinAll);
            progs[0].ops = main;
            Scenario { q, progs, sched, opts: conc_opts() }
        },
    )
    .boxed()
}

fn c13_conc_oracle(sc: &Scenario, ex: &Execution, info: &mut CaseInfo) -> Vec<Finding> {
    let (_, overlap) = conc_common(sc, ex, info);
    let h = Hist::build(sc, ex);
    let parked = ex.stats.not_ready_send > 0;
    info.class(format!("sink_parked={}", parked));
    info.nontrivial = parked && overlap;
    let mut f = keep(note_stuck(&h, info), &["ParkedSinkNoReceiver", "SendNeverDisconnected"]);
    f.extend(orc::no_receivers(&h));
    f.extend(keep(orc::verdict_findings(&h, false), &["Panic"]));
    f
}

// ---- C15 -----------------------------------------------------------------------------------

fn c15_random(t: Tier) -> BoxedStrategy<Scenario> {
    let max_len = if t == Tier::Quick { 150 } else { 400 };
    gen::seq_scenario(
        gen::qcfg(BOTH, FutMode::Always, gen::cap_small(), gen::wait_any()),
        max_len,
        false,
        seq_opts(),
    )
}

fn c15_oracle(sc: &Scenario, ex: &Execution, info: &mut CaseInfo) -> Vec<Finding> {
    seq_nontrivial(sc, ex, info);
    let direct_between_polls = {
        let mut last_poll: Option<u32> = None;
        let mut direct_after_poll = false;
        let mut r = false;
        for c in &ex.calls {
            match c.kind {
                CallKind::Poll => {
                    if direct_after_poll && last_poll.is_some() {
                        r = true;
                    }
                    last_poll = Some(c.handle);
                    direct_after_poll = false;
                }
                CallKind::TryRecv | CallKind::Recv if last_poll.is_some() => direct_after_poll = true,
                _ => {}
            }
        }
        r
    };
    if direct_between_polls {
        info.class("direct_method_between_polls");
    }
    info.max("max_steps_of_one_call", ex.outcome.max_solo);
    info.nontrivial = (ex.stats.not_ready_poll > 0 && ex.stats.not_ready_send > 0)
        || ex.stats.poll_unwritten > 0
        || direct_between_polls;
    let h = Hist::build(sc, ex);
    let mut f = orc::verdict_findings(&h, true);
    // NotReady obliges the handle to notify the task once progress is possible (the futures 0.1
    // contract of Sink and Stream): the sequential notification oracle of C14 applies as well
    f.extend(orc::interpreter_violations(&h, &["ModelMismatch", "HandBackMismatch", "ParkedNotNotified"]));
    f
}

fn c15_exhaustive(t: Tier) -> Box<dyn Iterator<Item = Scenario>> {
    let depth = if t == Tier::Quick { 4 } else { 5 };
    Box::new(enumerate_seq(depth, seq_opts(), &[1, 2]).filter(|s| s.q.futures))
}

fn fut_traffic_params() -> TrafficParams {
    TrafficParams {
        sink_tasks: true,
        max_values: 6,
        ..TrafficParams::default()
    }
}

fn c15_conc_strategy(_t: Tier) -> BoxedStrategy<Scenario> {
    gen::traffic(
        gen::qcfg(BOTH, FutMode::Always, gen::cap_small(), gen::wait_any()),
        fut_traffic_params(),
        400,
        fut_conc_opts(),
    )
}

fn traffic_findings(h: &Hist, info: &mut CaseInfo) -> Vec<Finding> {
    let mut f = orc::delivery(h);
    f.extend(orc::order(h));
    f.extend(orc::capacity(h));
    f.extend(orc::hangup(h));
    f.extend(note_stuck(h, info));
    f.extend(keep(orc::verdict_findings(h, false), &["Panic"]));
    f.extend(orc::interpreter_violations(h, &["HandBackMismatch"]));
    f
}

fn c15_conc_oracle(sc: &Scenario, ex: &Execution, info: &mut CaseInfo) -> Vec<Finding> {
    let (wrap, overlap) = conc_common(sc, ex, info);
    let h = Hist::build(sc, ex);
    info.nontrivial = wrap && overlap && (ex.stats.not_ready_poll + ex.stats.not_ready_send > 0);
    let mut f = traffic_findings(&h, info);
    // a poll / start_send that spins inside the call beyond what its spin counts allow
    if !f.iter().any(|x| x.kind == "CallDoesNotReturn") {
        f.extend(keep(orc::verdict_findings(&h, false), &["CallDoesNotReturn"]));
    }
    f
}

// ---- C05 -----------------------------------------------------------------------------------

fn c05_random(t: Tier) -> BoxedStrategy<Scenario> {
    let max_len = if t == Tier::Quick { 150 } else { 400 };
    prop_oneof![
        12 => gen::seq_scenario(gen::qcfg(BOTH, FutMode::Mixed, gen::cap_wide(), gen::wait_any()), max_len, false, seq_opts()),
        // a capped share of cases may create a second stream on a move-out queue (defect D7)
        1 => gen::seq_scenario(gen::qcfg(gen::MPMC, FutMode::Always, gen::cap_small(), gen::wait_any()), 40, true, seq_opts()),
    ]
    .boxed()
}

fn c05_oracle(sc: &Scenario, ex: &Execution, info: &mut CaseInfo) -> Vec<Finding> {
    cfg_classes(sc, info);
    let h = Hist::build(sc, ex);
    // non-trivial: teardown with undelivered values for some stream, or streams at different
    // positions, or a receiver dropped before the last sender
    let undelivered = h.streams.values().any(|s| s.deliveries.len() < h.required(s).len());
    let positions: std::collections::BTreeSet<usize> = h.streams.values().map(|s| s.deliveries.len()).collect();
    let last_sender_drop = h.senders.values().map(|x| x.1).filter(|x| *x != u64::MAX).max().unwrap_or(u64::MAX);
    let rx_before_tx = h
        .streams
        .values()
        .any(|s| s.handles.values().any(|x| x.1 < last_sender_drop));
    if undelivered {
        info.class("teardown_with_undelivered_values");
    }
    if positions.len() > 1 {
        info.class("streams_at_different_positions");
    }
    if rx_before_tx {
        info.class("receiver_dropped_before_last_sender");
    }
    info.class(format!("wrap={}", accepted(ex) > sc.q.n()));
    info.count("payload_instances_born", ex.ledger.born);
    info.count("payload_clones", ex.ledger.clones);
    info.nontrivial = ex.ledger.born > 0 && (undelivered || positions.len() > 1 || rx_before_tx);
    let mut f = orc::ledger_final(&h);
    f.extend(orc::payload_events(&h, &orc::C04_KINDS));
    f
}

fn c05_exhaustive(t: Tier) -> Box<dyn Iterator<Item = Scenario>> {
    enumerate_seq(if t == Tier::Quick { 4 } else { 5 }, seq_opts(), &[1, 2])
}

fn c05_conc_strategy(_t: Tier) -> BoxedStrategy<Scenario> {
    gen::traffic(
        gen::qcfg(BOTH, FutMode::Mixed, gen::cap_small(), gen::wait_any()),
        TrafficParams {
            max_producers: 2,
            max_streams: 2,
            max_consumers: 2,
            max_values: 6,
            leave: 4,
            w_clone_rx: 1,
            w_clone_tx: 1,
            ..TrafficParams::default()
        },
        300,
        conc_opts(),
    )
}

fn c05_conc_oracle(sc: &Scenario, ex: &Execution, info: &mut CaseInfo) -> Vec<Finding> {
    let (_wrap, overlap) = conc_common(sc, ex, info);
    let r = c05_oracle(sc, ex, info);
    info.nontrivial = info.nontrivial && overlap;
    r
}

// ---- C14 (sequential part) -----------------------------------------------------------------

fn c14_seq_oracle(sc: &Scenario, ex: &Execution, info: &mut CaseInfo) -> Vec<Finding> {
    seq_nontrivial(sc, ex, info);
    info.count("tasks_parked", ex.stats.parked);
    // non-trivial: a task parked and a later call by another handle happened
    info.nontrivial = ex.stats.parked > 0;
    let h = Hist::build(sc, ex);
    orc::interpreter_violations(&h, &["ParkedNotNotified"])
}

// ---- C01, C02, C03, C07, C12: traffic profiles ----------------------------------------------

fn delivery_strategy(t: Tier) -> BoxedStrategy<Scenario> {
    gen::traffic(
        gen::qcfg(BOTH, FutMode::Mixed, gen::cap_small(), gen::wait_any()),
        scaled(TrafficParams { fork: 2, ..TrafficParams::default() }, t),
        sched_len(t, 500),
        conc_opts(),
    )
}

fn c01_oracle(sc: &Scenario, ex: &Execution, info: &mut CaseInfo) -> Vec<Finding> {
    let (wrap, overlap) = conc_common(sc, ex, info);
    let h = Hist::build(sc, ex);
    info.class(format!("producers={}", h.senders.len().min(4)));
    info.class(format!("streams={}", h.streams.len().min(4)));
    info.class(format!("max_consumers_per_stream={}", h.max_handles_on_a_stream().min(4)));
    info.class(format!("some_value_refused={}", !h.refused.is_empty()));
    info.nontrivial = wrap && overlap && ex.outcome.preempt_in_call > 0;
    let mut f = orc::delivery(&h);
    // streams added during traffic (forks): when the initial stream has a single draining consumer
    // it is a witness of the global order and the add_stream oracle applies
    f.extend(orc::add_stream(&h, 0));
    f.extend(keep(orc::verdict_findings(&h, false), &["Panic"]));
    f.extend(orc::interpreter_violations(&h, &["HandBackMismatch"]));
    // a consumer that waits for ever although a value destined to its stream is accepted and
    // undelivered: the stream keeps receiving and the value is never delivered to it
    let stuck = note_stuck(&h, info);
    f.extend(stuck.into_iter().filter(|x| {
        matches!(x.kind.as_str(), "BlockedReceiver" | "TryRecvNeverSucceeds" | "ParkedStreamTask")
            || x.facts.get("full_and_empty_at_once") == Some(&serde_json::Value::Bool(true))
    }));
    f
}

fn order_strategy(t: Tier) -> BoxedStrategy<Scenario> {
    gen::traffic(
        gen::qcfg(BOTH, FutMode::Mixed, gen::cap_small(), gen::wait_any()),
        scaled(
    TrafficParams {
            max_values: 6,
            w_try: 1,
            fork: 2,
            // order is indifferent to known finding D7 itself (a second stream on a move-out queue
            // still delivers in order), so the API may be used here (round-7 seed C02-9)
            mpmc_uni_fork: true,
            ..TrafficParams::default()
        },
            t,
        ),
        sched_len(t, 500),
        conc_opts(),
    )
}

/// streams are added (by several threads at once) or removed (while another joins) during traffic
fn comings_and_goings_strategy(t: Tier) -> BoxedStrategy<Scenario> {
    prop_oneof![addstream_strategy(t), removal_strategy(t)].boxed()
}

/// the same, half of the cases preempting inside Clone / view closures: a consumer that a writer
/// laps while it reads delivers a later value in place of an earlier one
fn comings_and_goings_at_payload_strategy(t: Tier) -> BoxedStrategy<Scenario> {
    at_payload_points(comings_and_goings_strategy(t))
}

fn c02_oracle(sc: &Scenario, ex: &Execution, info: &mut CaseInfo) -> Vec<Finding> {
    let (_wrap, overlap) = conc_common(sc, ex, info);
    let h = Hist::build(sc, ex);
    let producers: std::collections::BTreeSet<u8> = h.acc.values().map(|v| v.prog).collect();
    // overlapping accepted sends by different producers
    let mut overl_sends = false;
    let sends: Vec<_> = h.acc.values().collect();
    for a in &sends {
        for b in &sends {
            if a.prog != b.prog && a.t0 < b.t1 && b.t0 < a.t1 {
                overl_sends = true;
            }
        }
    }
    info.class(format!("producers_with_accepted_values={}", producers.len().min(4)));
    info.class(format!("streams={}", h.streams.len().min(4)));
    info.class(format!("overlapping_sends_of_different_producers={}", overl_sends));
    info.nontrivial = overlap && (overl_sends || h.streams.len() >= 2) && ex.outcome.preempt_in_call > 0 && h.acc.len() >= 2;
    let _ = note_stuck(&h, info);
    orc::order(&h)
}

fn capacity_strategy(t: Tier) -> BoxedStrategy<Scenario> {
    gen::traffic(
        gen::qcfg(BOTH, FutMode::Mixed, gen::cap_any(), gen::wait_any()),
        scaled(
    TrafficParams {
            max_values: 10,
            w_send: 2,
            w_try: 8,
            w_sendk: 3,
            fork: 2,
            // single <-> multi conversions and clones of handles: every producer and consumer mode
            // is under the bound (round-7 seed C03-9 loses a stream in a futures into_multi)
            w_convert: 2,
            w_clone_rx: 1,
            w_clone_tx: 1,
            ..TrafficParams::default()
        },
            t,
        ),
        sched_len(t, 500),
        conc_opts(),
    )
}

fn c03_oracle(sc: &Scenario, ex: &Execution, info: &mut CaseInfo) -> Vec<Finding> {
    let (_wrap, overlap) = conc_common(sc, ex, info);
    let h = Hist::build(sc, ex);
    // boundary crossed under concurrency: a refused send, later an accepted one, while a receive overlapped
    let mut crossed = false;
    for r in &h.refused {
        if matches!(r.3, SendOut::Full(_) | SendOut::NotReady(_)) {
            if let Some(a) = h.acc.values().find(|a| a.t0 > r.2) {
                let recv_overlap = h
                    .streams
                    .values()
                    .any(|s| s.deliveries.iter().any(|d| d.t0 < a.t1 && d.t1 > r.1));
                if recv_overlap {
                    crossed = true;
                    break;
                }
            }
        }
    }
    info.class(format!("full_boundary_crossed_concurrently={}", crossed));
    info.class(format!("streams={}", h.streams.len().min(4)));
    info.nontrivial = crossed && overlap;
    let _ = note_stuck(&h, info);
    let mut f = orc::capacity(&h);
    f.extend(keep(orc::delivery(&h), &["Lost"]));
    f
}

fn hangup_strategy(t: Tier) -> BoxedStrategy<Scenario> {
    gen::traffic(
        gen::qcfg(BOTH, FutMode::Mixed, gen::cap_small(), gen::wait_any()),
        scaled(
    TrafficParams {
            max_values: 4,
            w_clone_tx: 3,
            max_consumers: 3,
            ..TrafficParams::default()
        },
            t,
        ),
        sched_len(t, 500),
        conc_opts(),
    )
}

fn c07_oracle(sc: &Scenario, ex: &Execution, info: &mut CaseInfo) -> Vec<Finding> {
    let (_wrap, overlap) = conc_common(sc, ex, info);
    let h = Hist::build(sc, ex);
    // an end report overlapping the last send or the last sender drop
    let last_drop = h.senders.values().map(|x| (x.1, x.2)).filter(|x| x.0 != u64::MAX).max();
    let last_send = h.acc.values().map(|v| (v.t0, v.t1)).max();
    let mut racing_end = false;
    for s in h.streams.values() {
        for e in &s.ends {
            for iv in [last_drop, last_send].iter().flatten() {
                if e.0 < iv.1 && iv.0 < e.1 {
                    racing_end = true;
                }
            }
        }
    }
    let ends: usize = h.streams.values().map(|s| s.ends.len()).sum();
    info.class(format!("end_report_races_with_last_send_or_drop={}", racing_end));
    info.class(format!("sender_handles={}", h.senders.len().min(5)));
    info.class(format!("max_consumers_per_stream={}", h.max_handles_on_a_stream().min(4)));
    info.count("end_reports", ends as u64);
    info.nontrivial = racing_end && overlap;
    // a consumer that is never told the end (stuck although every sender is gone) is a violation too
    let stuck: Vec<Finding> = note_stuck(&h, info)
        .into_iter()
        .filter(|f| f.facts.get("all_senders_gone") == Some(&serde_json::Value::Bool(true)))
        .collect();
    let mut f = orc::hangup(&h);
    f.extend(keep(orc::delivery(&h), &["Lost"]));
    f.extend(stuck);
    f
}

fn population_strategy(t: Tier) -> BoxedStrategy<Scenario> {
    gen::traffic(
        gen::qcfg(BOTH, FutMode::Mixed, gen::cap_small(), gen::wait_any()),
        scaled(
    TrafficParams {
            max_values: 6,
            w_clone_tx: 4,
            w_clone_rx: 4,
            w_convert: 3,
            max_consumers: 2,
            fork: 1,
            // many population changes in a row (an epoch opens while a consumer sleeps)
            w_burst: 1,
            ..TrafficParams::default()
        },
            t,
        ),
        sched_len(t, 500),
        conc_opts(),
    )
}

/// population changes on futures queues whose producers are Sink tasks and whose consumers are
/// Stream tasks, with consumers that leave: a wake-up lost because of a population change leaves a
/// task parked (round-5 seed C12-6)
fn population_tasks_strategy(t: Tier) -> BoxedStrategy<Scenario> {
    gen::traffic(
        gen::qcfg(BOTH, FutMode::Always, prop_oneof![3 => Just(1u8), 2 => Just(2u8), 1 => Just(4u8)].boxed(), gen::wait_any()),
        scaled(
            TrafficParams {
                max_values: 5,
                max_producers: 2,
                sink_tasks: true,
                leave: 3,
                w_clone_tx: 3,
                w_clone_rx: 4,
                w_convert: 2,
                max_consumers: 3,
                ..TrafficParams::default()
            },
            t,
        ),
        sched_len(t, 500),
        conc_opts(),
    )
}

fn c12_oracle(sc: &Scenario, ex: &Execution, info: &mut CaseInfo) -> Vec<Finding> {
    let (_wrap, overlap) = conc_common(sc, ex, info);
    let h = Hist::build(sc, ex);
    // population change (clone / drop / conversion) overlapping a send or receive of another program
    let mut racing_change = 0;
    for c in &ex.calls {
        if matches!(
            c.kind,
            CallKind::CloneTx | CallKind::DropTx | CallKind::CloneRx | CallKind::DropRx | CallKind::UnsubRx | CallKind::IntoSingle | CallKind::IntoMulti
        ) {
            if ex
                .calls
                .iter()
                .any(|o| o.prog != c.prog && (o.kind.is_send() || o.kind.is_recv()) && o.t0 < c.t1 && c.t0 < o.t1)
            {
                racing_change += 1;
            }
        }
    }
    info.class(format!("population_changes_racing_with_traffic={}", racing_change.min(4)));
    info.nontrivial = racing_change >= 2 && overlap;
    let mut f = orc::delivery(&h);
    f.extend(orc::order(&h));
    f.extend(orc::capacity(&h));
    f.extend(orc::hangup(&h));
    f.extend(orc::add_stream(&h, 0));
    let (sp, judged) = orc::spurious_while_quiet(&h);
    info.count("refusals_outside_any_overlap_judged_against_the_model", judged);
    f.extend(sp);
    // a hang (receiver never woken, producer refused for ever, task never notified) after a
    // population change is an observable effect of the change
    f.extend(note_stuck(&h, info));
    f
}


// ---- C08 -----------------------------------------------------------------------------------

fn wakeup_strategy(t: Tier) -> BoxedStrategy<Scenario> {
    gen::traffic(
        // futures queues too: the blocking recv() of the futures receivers waits through FutWait
        // (round-7 seed C08-10); their producers use the direct try_send here
        gen::qcfg(BOTH, FutMode::Mixed, prop_oneof![3 => Just(1u8), 3 => Just(2u8), 2 => Just(4u8), 1 => Just(3u8)].boxed(), gen::wait_any()),
        scaled(
    TrafficParams {
            max_values: 5,
            max_producers: 2,
            w_try: 1,
            w_sendk: 1,
            leave: 4,
            gates: true,
            blocking_only: true,
            w_clone_tx: 1,
            w_burst: 1,
            ..TrafficParams::default()
        },
            t,
        ),
        sched_len(t, 400),
        conc_opts(),
    )
}

fn c08_oracle(sc: &Scenario, ex: &Execution, info: &mut CaseInfo) -> Vec<Finding> {
    let (_wrap, _overlap) = conc_common(sc, ex, info);
    let h = Hist::build(sc, ex);
    // a blocking receive that began before the event it waited for had happened
    let last_drop = h.senders.values().map(|x| x.2).max().unwrap_or(0);
    let mut waited = 0u64;
    for s in h.streams.values() {
        for d in &s.deliveries {
            if d.kind.is_blocking_recv() {
                if let Some(a) = h.acc.get(&d.id) {
                    if d.t0 < a.t1 {
                        waited += 1;
                    }
                }
            }
        }
        for e in &s.ends {
            if e.3.is_blocking_recv() && e.0 < last_drop {
                waited += 1;
            }
        }
    }
    let leavers = h
        .streams
        .values()
        .flat_map(|s| s.handles.values())
        .filter(|x| x.1 != u64::MAX && x.1 < last_drop)
        .count();
    info.class(format!("blocking_receives_that_waited={}", waited.min(5)));
    info.class(format!("consumers_that_left_early={}", leavers.min(3)));
    info.class(format!("max_consumers_per_stream={}", h.max_handles_on_a_stream().min(4)));
    info.class(format!("gated_producers={}", sc.progs.iter().filter(|p| p.ops.iter().any(|o| matches!(o, Op::WaitDelivered { .. }))).count().min(3)));
    info.nontrivial = waited > 0;
    keep(note_stuck(&h, info), &["BlockedReceiver"])
}


// ---- C04 -----------------------------------------------------------------------------------

fn values_strategy(t: Tier) -> BoxedStrategy<Scenario> {
    at_payload_points(values_strategy_base(t))
}

/// streams added (from sole and from shared parents, by several threads) while producers wrap the
/// ring and consumers are suspended inside Clone / view closures (round-5 seed C04-5: a writer
/// that misses a freshly added stream overwrites the slot its consumer is still cloning)
fn values_addstream_strategy(t: Tier) -> BoxedStrategy<Scenario> {
    at_payload_points(addstream_strategy(t))
}

fn at_payload_points(s: BoxedStrategy<Scenario>) -> BoxedStrategy<Scenario> {
    // half of the cases use the policy that preempts at the point inside Clone / view closures
    (s, prop_oneof![Just(0u8), Just(40u8), Just(100u8), Just(160u8)], any::<bool>())
        .prop_map(|(mut sc, stay_target, on)| {
            if on {
                sc.sched.policy = crate::rt::Policy::Walk {
                    stay: 239,
                    target: Some(crate::rt::TARGET_PAYLOAD),
                    stay_target,
                };
            }
            sc
        })
        .boxed()
}

fn values_strategy_base(t: Tier) -> BoxedStrategy<Scenario> {
    gen::traffic(
        gen::qcfg(BOTH, FutMode::Mixed, prop_oneof![3 => Just(1u8), 3 => Just(2u8), 2 => Just(4u8)].boxed(), gen::wait_any()),
        scaled(
    TrafficParams {
            max_values: 10,
            max_producers: 2,
            w_send: 8,
            w_try: 1,
            w_sendk: 1,
            w_clone_rx: 1,
            leave: 2,
            fork: 2,
            ..TrafficParams::default()
        },
            t,
        ),
        sched_len(t, 600),
        conc_opts(),
    )
}

fn c04_oracle(sc: &Scenario, ex: &Execution, info: &mut CaseInfo) -> Vec<Finding> {
    let (wrap, _overlap) = conc_common(sc, ex, info);
    let h = Hist::build(sc, ex);
    info.class(format!("clone_or_view_suspended_while_others_ran={}", ex.ledger.suspended_obs.min(5)));
    info.class(format!("max_consumers_per_stream={}", h.max_handles_on_a_stream().min(4)));
    info.class(format!("streams={}", h.streams.len().min(4)));
    info.count("clones", ex.ledger.clones);
    info.count("views", ex.ledger.views);
    info.count("observations_suspended", ex.ledger.suspended_obs);
    info.nontrivial = ex.ledger.suspended_obs > 0 && wrap;
    let _ = note_stuck(&h, info);
    orc::payload_events(&h, &orc::C04_KINDS)
}

// ---- C06 -----------------------------------------------------------------------------------

fn quiescence_strategy(_t: Tier) -> BoxedStrategy<Scenario> {
    gen::quiescence_scenario(conc_opts())
}

fn c06_oracle(sc: &Scenario, ex: &Execution, info: &mut CaseInfo) -> Vec<Finding> {
    let (wrap, overlap) = conc_common(sc, ex, info);
    let h = Hist::build(sc, ex);
    let probe_op = sc.progs[0].ops.len() as u32 - 1;
    let probed = ex.calls.iter().any(|c| c.prog == 0 && c.op_idx == probe_op);
    // transient refusals the sequential model would not have produced are allowed and only counted
    info.class(format!("probe_ran={}", probed));
    info.class(format!("streams_alive_at_probe={}", h.streams.values().filter(|s| s.handles.values().any(|x| x.1 == u64::MAX || x.1 > h.t_end / 2)).count().min(4)));
    info.nontrivial = probed && overlap && wrap;
    let _ = note_stuck(&h, info);
    let mut f = orc::quiescent(&h, probe_op);
    let (sp, judged) = orc::spurious_while_quiet(&h);
    info.count("refusals_outside_any_overlap_judged_against_the_model", judged);
    f.extend(sp);
    // every receiver has left by the time of the probe: the model answers Disconnected to every send
    f.extend(orc::no_receivers(&h));
    f
}

/// a sequential history is quiescent between any two calls: every return value equals the model's
fn c06_seq_oracle(sc: &Scenario, ex: &Execution, info: &mut CaseInfo) -> Vec<Finding> {
    c09_oracle(sc, ex, info)
}

// ---- C10 -----------------------------------------------------------------------------------

fn addstream_strategy(_t: Tier) -> BoxedStrategy<Scenario> {
    gen::addstream_plan().prop_map(|pl| gen::build_addstream(&pl, &conc_opts())).boxed()
}

fn c10_oracle(sc: &Scenario, ex: &Execution, info: &mut CaseInfo) -> Vec<Finding> {
    let (wrap, _overlap) = conc_common(sc, ex, info);
    let h = Hist::build(sc, ex);
    // a send or a sibling receive overlapped some add_stream call made while other threads ran
    let mut raced = false;
    let mut concurrent_adds = 0;
    for s in h.streams.values() {
        if s.parent.is_none() {
            continue;
        }
        let by_thread = ex.calls.iter().any(|c| c.kind == CallKind::AddStream && c.t0 == s.c0 && c.prog != 0);
        if !by_thread {
            continue;
        }
        concurrent_adds += 1;
        let send_overlap = h.acc.values().any(|v| v.t0 < s.c1 && v.t1 > s.c0);
        let sib = s
            .parent
            .and_then(|p| h.streams.get(&p))
            .map(|ps| ps.deliveries.iter().any(|d| d.t0 < s.c1 && d.t1 > s.c0))
            .unwrap_or(false);
        if send_overlap || sib {
            raced = true;
        }
    }
    info.class(format!("add_stream_calls_during_traffic={}", concurrent_adds.min(3)));
    info.class(format!("add_stream_raced_with_send_or_sibling={}", raced));
    info.class(format!("parent_had_several_handles={}", h.streams.values().any(|s| s.parent_handles_at_call >= 2)));
    info.class(format!("d8_trigger_present={}", h.addstream_raced_by_sibling()));
    info.nontrivial = raced && wrap;
    let mut f = orc::add_stream(&h, 0);
    f.extend(orc::delivery(&h));
    f.extend(orc::order(&h));
    f.extend(orc::capacity(&h));
    f.extend(note_stuck(&h, info));
    f
}

// ---- C11 -----------------------------------------------------------------------------------

fn removal_strategy(_t: Tier) -> BoxedStrategy<Scenario> {
    gen::removal_scenario(conc_opts())
}

fn c11_oracle(sc: &Scenario, ex: &Execution, info: &mut CaseInfo) -> Vec<Finding> {
    let (_wrap, overlap) = conc_common(sc, ex, info);
    let h = Hist::build(sc, ex);
    // a removal call overlapping a send attempt of another thread
    let mut racing = 0;
    let mut removed_streams = 0;
    for c in &ex.calls {
        if matches!(c.kind, CallKind::DropRx | CallKind::UnsubRx) && c.prog != 0 {
            if ex.calls.iter().any(|o| o.kind.is_send() && o.prog != c.prog && o.t0 < c.t1 && c.t0 < o.t1) {
                racing += 1;
            }
        }
    }
    for s in h.streams.values() {
        if s.handles.values().all(|x| x.2 != u64::MAX) && s.ends.is_empty() {
            removed_streams += 1;
        }
    }
    let refused_then_ok = ex.stats.sends_full_then_ok;
    info.class(format!("removal_calls_racing_with_sends={}", (racing as u64).min(4)));
    info.class(format!("streams_removed_before_draining={}", (removed_streams as u64).min(3)));
    info.class(format!("sends_refused_then_accepted={}", refused_then_ok.min(4)));
    info.nontrivial = racing > 0 && overlap;
    let mut f = keep(note_stuck(&h, info), &["SendRefusedForever", "ParkedSinkTask", "ParkedSinkNoReceiver", "SendNeverDisconnected"]);
    f.extend(orc::unsubscribe_values(&h));
    f.extend(orc::delivery(&h));
    f.extend(orc::capacity(&h));
    f
}

// ---- C14 -----------------------------------------------------------------------------------

fn tasks_strategy(t: Tier) -> BoxedStrategy<Scenario> {
    // one case in four: a task is held at one of the first points of a poll / start_send / direct
    // receive while everybody else runs on (round-8 seed: a stream task that waits on the slot of
    // its failed attempt instead of the slot of the position it read afterwards)
    (tasks_strategy_base(t), gen::stall_call_schedule(400, &[13, 13, 13, 2, 7]), prop_oneof![3 => Just(false), 1 => Just(true)])
        .prop_map(|(mut sc, stall, on)| {
            if on {
                sc.sched = stall;
            }
            sc
        })
        .boxed()
}

fn tasks_strategy_base(t: Tier) -> BoxedStrategy<Scenario> {
    gen::traffic(
        gen::qcfg(BOTH, FutMode::Always, prop_oneof![Just(1u8), Just(2u8)].boxed(), gen::wait_any()),
        scaled(
    TrafficParams {
            max_values: 5,
            max_producers: 2,
            sink_tasks: true,
            leave: 3,
            // gated producers wait until their value has been delivered before they go on (and
            // drop their sender): without that the last sender's drop rescues every sleeper
            gates: true,
            w_clone_rx: 1,
            ..TrafficParams::default()
        },
            t,
        ),
        sched_len(t, 500),
        fut_conc_opts(),
    )
}

/// Scenarios of the hold sweep (C14): two in three have one stream shared by a stream task that
/// drains it and one or two siblings that take a value and leave (through the direct methods or
/// as tasks), with producers that keep their sender until their last value has been delivered - so
/// that nothing but the notification the property demands can wake a task that parked wrongly.
fn hold_sweep_strategy(t: Tier) -> BoxedStrategy<Scenario> {
    use crate::gen::{COp, ConsumerPlan, Fin};
    use crate::ops::DrainHow;
    let shaped = (
        gen::traffic_plan(
            gen::qcfg(BOTH, FutMode::Always, prop_oneof![Just(1u8), Just(2u8)].boxed(), gen::wait_any()),
            scaled(
                TrafficParams {
                    max_values: 4,
                    max_producers: 2,
                    max_streams: 1,
                    max_consumers: 3,
                    sink_tasks: true,
                    leave: 3,
                    gates: true,
                    ..TrafficParams::default()
                },
                t,
            ),
            sched_len(t, 300),
        ),
        vec(prop_oneof![Just(COp::Recv), Just(COp::Next), Just(COp::TryRecv), Just(COp::Yield)], 1..3),
        0u8..3,
    )
        .prop_map(|(mut plan, sib, extra)| {
            plan.streams.truncate(1);
            let s = &mut plan.streams[0];
            s[0].fin = Fin::Drain(DrainHow::Poll, extra);
            s[0].single = false;
            s[0].fork = None;
            if s.len() < 2 {
                s.push(ConsumerPlan { ops: sib.clone(), fin: Fin::Leave, single: false, fork: None, fork_iter: false });
            }
            for c in s.iter_mut().skip(1) {
                c.fin = Fin::Leave;
                c.single = false;
                c.fork = None;
                if c.ops.is_empty() {
                    c.ops = sib.clone();
                }
            }
            for p in plan.producers.iter_mut() {
                p.gate = Some(0);
            }
            gen::build_traffic(&plan, &fut_conc_opts())
        });
    prop_oneof![2 => shaped, 1 => tasks_strategy_base(t)].boxed()
}

fn c14_oracle(sc: &Scenario, ex: &Execution, info: &mut CaseInfo) -> Vec<Finding> {
    let (_wrap, overlap) = conc_common(sc, ex, info);
    let h = Hist::build(sc, ex);
    let parked = ex.stats.not_ready_poll + ex.stats.not_ready_send;
    let direct = ex
        .calls
        .iter()
        .any(|c| matches!(c.kind, CallKind::TryRecv | CallKind::Recv) && matches!(c.res, Res::Recv(RecvOut::Val(_))));
    info.class(format!("tasks_that_got_NotReady={}", parked.min(5)));
    info.class(format!("sink_NotReady={}", ex.stats.not_ready_send.min(3)));
    info.class(format!("stream_NotReady={}", ex.stats.not_ready_poll.min(3)));
    info.class(format!("values_taken_through_direct_methods={}", direct));
    info.nontrivial = parked > 0 && overlap;
    let mut f = keep(
        note_stuck(&h, info),
        &["ParkedStreamTask", "ParkedSinkTask", "ParkedSinkNoReceiver"],
    );
    // a task that spins inside poll / start_send instead of returning NotReady never parks: it can
    // make no progress and is never notified either
    f.extend(keep(orc::verdict_findings(&h, false), &["CallDoesNotReturn"]));
    f
}

// ---- C16 -----------------------------------------------------------------------------------

fn churn_opts() -> ExecOpts {
    ExecOpts {
        quarantine: true,
        max_steps: 400_000,
        ..ExecOpts::default()
    }
}

fn churn_strategy(t: Tier) -> BoxedStrategy<Scenario> {
    gen::churn_scenario(churn_opts(), if t == Tier::Quick { 30 } else { 60 })
}

fn c16_oracle(sc: &Scenario, ex: &Execution, info: &mut CaseInfo) -> Vec<Finding> {
    let (_wrap, _overlap) = conc_common(sc, ex, info);
    let h = Hist::build(sc, ex);
    info.count("reclamation_batches", ex.outcome.reclaim_batches);
    info.count("reclamation_batches_while_another_thread_was_inside_a_call", ex.outcome.reclaim_batches_concurrent);
    info.count("deallocations", ex.outcome.frees);
    info.count("allocations", ex.outcome.allocs);
    info.class(format!("reclamation_batches={}", ex.outcome.reclaim_batches.min(4)));
    info.class(format!("batches_concurrent_with_calls={}", ex.outcome.reclaim_batches_concurrent.min(4)));
    info.nontrivial = ex.outcome.reclaim_batches_concurrent > 0;
    let _ = note_stuck(&h, info);
    let mut f = orc::memory_faults(&h);
    f.extend(keep(orc::verdict_findings(&h, false), &["Panic"]));
    f
}

// ---- C18 -----------------------------------------------------------------------------------

fn probe_opts() -> ExecOpts {
    ExecOpts {
        probe_bound: 300,
        try_quiet: true,
        ..ExecOpts::default()
    }
}

fn probe_strategy(_t: Tier) -> BoxedStrategy<Scenario> {
    gen::probe_scenario(probe_opts())
}

fn probe_churn_strategy(_t: Tier) -> BoxedStrategy<Scenario> {
    let mut o = probe_opts();
    o.max_steps = 400_000;
    gen::probe_churn_scenario(o)
}

fn c18_oracle(sc: &Scenario, ex: &Execution, info: &mut CaseInfo) -> Vec<Finding> {
    let (_wrap, _overlap) = conc_common(sc, ex, info);
    let h = Hist::build(sc, ex);
    info.count("probes", ex.stats.probes);
    info.count("probes_with_a_thread_frozen_inside_a_call", ex.stats.probes_with_frozen_midcall);
    info.max("max_steps_of_a_solo_try_operation", ex.stats.max_probe_steps);
    info.max("max_uninterrupted_steps_of_any_try_operation", ex.outcome.max_try_quiet);
    info.class(format!("probes_with_frozen_midcall={}", ex.stats.probes_with_frozen_midcall.min(4)));
    info.nontrivial = ex.stats.probes_with_frozen_midcall > 0;
    let _ = note_stuck(&h, info);
    // the property is stated for queues whose wait strategy needs no notification (busy or
    // yielding): a futures queue (FutWait) or a blocking one takes the waiters' lock inside try
    // operations by design.  The generators stay inside that domain; a mutated (fuzzed) or
    // hand-written scenario that leaves it is not judged.
    let in_domain = !sc.q.futures && !matches!(sc.q.wait, crate::handles::WaitKind::Block(..) | crate::handles::WaitKind::BlockDefault);
    info.class(format!("inside_property_domain={}", in_domain));
    if !in_domain {
        info.nontrivial = false;
        return Vec::new();
    }
    let mut f = keep(orc::verdict_findings(&h, false), &["CallDoesNotReturn", "CallBlocks"]);
    // freeze sweep: with one thread suspended for good, a try operation of another thread that is
    // found blocked on a lock when nothing can run any more is waiting for the suspended thread
    if sc.opts.freeze.is_some() {
        info.class("one_thread_frozen_for_good");
        let frozen_in_call = ex
            .outcome
            .threads
            .iter()
            .find(|t| t.blocked == Some(crate::rt::Block::Frozen))
            .map(|t| t.activity.kind != 0 && t.activity.kind < 100)
            .unwrap_or(false);
        info.class(format!("frozen_inside_an_api_call={}", frozen_in_call));
        if let Some(t) = ex.outcome.threads.iter().find(|t| t.blocked == Some(crate::rt::Block::Frozen)) {
            info.class(format!("frozen_inside={:?}", CallKind::from_code(t.activity.kind)));
            if CallKind::from_code(t.activity.kind) == Some(CallKind::AddStream) {
                let shared = h.streams.get(&t.activity.stream).map(|s| s.handles.len() >= 2).unwrap_or(false);
                info.class(format!("frozen_inside_add_stream_on_a_shared_parent={}", shared));
            }
        }
        info.nontrivial = frozen_in_call;
        for th in &ex.outcome.threads {
            let k = th.activity.kind;
            let is_try = k == CallKind::TrySend.code() || k == CallKind::TryRecv.code() || k == CallKind::TryView.code() || k == CallKind::TryIterNext.code();
            if is_try && matches!(th.blocked, Some(crate::rt::Block::Mutex(_)) | Some(crate::rt::Block::Cond { .. })) {
                f.push(h.base_facts(Finding::new(
                    "CallBlocks",
                    format!(
                        "with thread {} suspended for good at its point {}, thread {} is blocked inside {:?} ({:?})",
                        sc.opts.freeze.unwrap().0,
                        sc.opts.freeze.unwrap().1,
                        th.tid,
                        CallKind::from_code(k),
                        th.blocked
                    ),
                )));
            }
        }
    }
    f
}

fn freeze_strategy(_t: Tier) -> BoxedStrategy<Scenario> {
    // traffic (with forks) and churn on busy / yielding queues, without the solo probes
    prop_oneof![
        2 => gen::traffic(
            gen::qcfg(BOTH, FutMode::Never, gen::cap_small(), gen::wait_no_notify()),
            TrafficParams { max_values: 4, max_producers: 2, max_consumers: 2, w_try: 6, w_send: 2, w_clone_rx: 2, w_clone_tx: 2, w_convert: 2, w_try_iter: 4, try_only: true, leave: 2, fork: 3, ..TrafficParams::default() },
            300,
            probe_opts(),
        ),
        1 => gen::churn_scenario_with(probe_opts(), 8, gen::wait_no_notify(), FutMode::Never),
        // add_stream on a parent shared by 2-3 handles whose siblings receive meanwhile: the state
        // in which a freshly published stream is briefly behind the writers
        // (in half of these the adder is first held for a while inside add_stream by a StallCall
        // schedule, so that the siblings and the producers move on before the new stream is
        // published; the sweep then suspends it for good at every later point)
        2 => (gen::addstream_plan(), gen::stall_call_schedule(300, &[14]), any::<bool>(), 2u8..8, 2u8..40).prop_map(|(mut pl, mut stall, use_stall, nth, hold)| {
            use crate::handles::WaitKind;
            if use_stall {
                // the adder is the (producers + 2)-nd thread the controller starts; it is held at
                // one of the points around its position copy and the publication of the new list,
                // for a bounded time, so that siblings and producers move on in between
                if let crate::rt::Policy::StallCall { victim, nth: n, hold: h, .. } = &mut stall.policy {
                    *victim = pl.producers.len() as u8 + 2;
                    *n = nth;
                    *h = hold;
                }
                pl.sched = stall;
            }
            pl.parent_handles = 2 + pl.parent_handles % 2;
            pl.q.futures = false;
            pl.q.wait = match pl.q.wait {
                WaitKind::Block(a, b) => WaitKind::Yield(a, b),
                WaitKind::BlockDefault => WaitKind::YieldDefault,
                w => w,
            };
            gen::build_addstream(&pl, &probe_opts())
        }),
    ]
    .boxed()
}


// ---- C17 -----------------------------------------------------------------------------------

fn mem_opts(model: bool) -> ExecOpts {
    let mut o = if model { seq_opts() } else { conc_opts() };
    o.mem = true;
    o
}

fn c17_seq_strategy(_t: Tier) -> BoxedStrategy<Scenario> {
    gen::seq_scenario(gen::qcfg(BOTH, FutMode::Mixed, gen::cap_wide(), gen::wait_any()), 120, false, mem_opts(true))
}

fn c17_conc_strategy(_t: Tier) -> BoxedStrategy<Scenario> {
    gen::traffic(
        gen::qcfg(BOTH, FutMode::Mixed, gen::cap_any(), gen::wait_any()),
        TrafficParams {
            max_values: 5,
            leave: 4,
            w_clone_rx: 2,
            w_clone_tx: 2,
            w_convert: 1,
            ..TrafficParams::default()
        },
        300,
        mem_opts(false),
    )
}

/// one deferred-reclamation batch plus vector growth; far below the smallest per-cycle leak
/// (8 bytes) times the number of cycles between the compared samples at the cycle counts used
const CHURN_SLACK_BYTES: i64 = 4096;

fn c17_teardown_findings(h: &Hist, info: &mut CaseInfo) -> Vec<Finding> {
    let ex = h.ex;
    let mut out = Vec::new();
    if ex.mem.enabled && h.completed() {
        let leaked = ex.mem.after.0 - ex.mem.before.0;
        let blocks = ex.mem.after.1 - ex.mem.before.1;
        info.max("max_leaked_bytes_at_teardown", leaked.max(0) as u64);
        if leaked != 0 || blocks != 0 {
            out.push(
                Finding::new(
                    "LeakAtTeardown",
                    format!(
                        "{} bytes in {} blocks allocated by the queue are still live after the last handle was dropped (block sizes {:?})",
                        leaked, blocks, ex.mem.live_block_sizes
                    ),
                )
                .fact("flavour", format!("{:?}", h.sc.q.flavour))
                .fact("futures", h.sc.q.futures)
                .fact("blocks", blocks),
            );
        }
    }
    out
}

fn c17_teardown_oracle(sc: &Scenario, ex: &Execution, info: &mut CaseInfo) -> Vec<Finding> {
    cfg_classes(sc, info);
    let h = Hist::build(sc, ex);
    let streams_removed = h.streams.values().filter(|s| s.parent.is_some()).count();
    let undelivered = h.streams.values().any(|s| s.deliveries.len() < h.acc.len());
    info.class(format!("streams_added={}", streams_removed.min(4)));
    info.class(format!("values_left_in_the_ring={}", undelivered));
    info.nontrivial = h.completed() && streams_removed >= 1 && undelivered;
    let _ = note_stuck(&h, info);
    c17_teardown_findings(&h, info)
}

fn c17_churn_strategy(t: Tier) -> BoxedStrategy<Scenario> {
    if t == Tier::Quick {
        gen::mem_churn_scenario(mem_opts(false), &[100, 100, 100, 1000, 1000, 10_000])
    } else {
        gen::mem_churn_scenario(mem_opts(false), &[100, 1000, 1000, 10_000, 10_000, 100_000])
    }
}

fn c17_churn_oracle(sc: &Scenario, ex: &Execution, info: &mut CaseInfo) -> Vec<Finding> {
    cfg_classes(sc, info);
    let h = Hist::build(sc, ex);
    let samples = &ex.stats.mem_samples;
    let cycles = samples.last().map(|s| s.0).unwrap_or(0);
    info.class(format!("cycles={}", cycles));
    info.class(format!("concurrent_traffic={}", sc.progs.len() > 1));
    info.class(format!("reclamation_batches={}", ex.outcome.reclaim_batches.min(5)));
    info.count("reclamation_batches", ex.outcome.reclaim_batches);
    info.count("churn_cycles", cycles as u64);
    info.nontrivial = h.completed() && samples.len() == 3 && ex.outcome.reclaim_batches >= 1;
    let mut out = c17_teardown_findings(&h, info);
    // a thread that is descheduled (or starved inside a retry loop) for most of the run does not
    // "keep operating" and may legitimately hold reclamation back: such runs are inconclusive
    let mut starved = false;
    if samples.len() == 3 && sc.progs.len() > 1 {
        let at = &ex.stats.calls_by_prog_at_sample;
        let done = |k: usize| at.get(k).and_then(|v| v.get(1)).copied().unwrap_or(0);
        let between = done(2).saturating_sub(done(1));
        let cycles_between = (samples[2].0 - samples[1].0) as u64;
        if between < cycles_between / 2 {
            starved = true;
        }
    }
    info.class(format!("traffic_thread_starved={}", starved));
    if starved {
        info.count("churn_runs_inconclusive_starved_thread", 1);
        info.nontrivial = false;
    }
    if h.completed() && samples.len() == 3 && !starved {
        let (c2, m2) = (samples[1].0 as i64, samples[1].1);
        let (c4, m4) = (samples[2].0 as i64, samples[2].1);
        let growth = m4 - m2;
        info.max("max_growth_between_plateau_samples_bytes", growth.max(0) as u64);
        if growth > CHURN_SLACK_BYTES {
            out.push(
                Finding::new(
                    "MemoryGrowsWithChurn",
                    format!(
                        "memory held by the queue grew from {} bytes after {} cycles to {} bytes after {} cycles ({:.1} bytes per cycle) while a fixed set of handles stayed alive and kept operating",
                        m2,
                        c2,
                        m4,
                        c4,
                        growth as f64 / (c4 - c2) as f64
                    ),
                )
                .fact("flavour", format!("{:?}", sc.q.flavour))
                .fact("futures", sc.q.futures),
            );
        }
    }
    out
}

// ---- registry ------------------------------------------------------------------------------

fn cases(quick: u32, thorough: u32) -> impl Fn(Tier) -> u32 {
    move |t| if t == Tier::Quick { quick } else { thorough }
}

macro_rules! cases_fn {
    ($q:expr, $t:expr) => {{
        fn f(t: Tier) -> u32 {
            if t == Tier::Quick {
                $q
            } else {
                $t
            }
        }
        f
    }};
}

const SC_ASSUME: &str = "only sequentially consistent interleavings of the instrumented shared-memory operations are explored (weaker-than-SC reorderings are invisible)";
const SAMPLE_ASSUME: &str = "schedules and histories are sampled (random walk, PCT, targeted), not enumerated; absence of a violation is not a proof";
const MODEL_ASSUME: &str = "the reference model (one log, one cursor per stream, window N, sender count) is the specification";

pub fn registry() -> Vec<PropDef> {
    let _ = cases(0, 0);
    vec![
        PropDef {
            id: "C01",
            parts: vec![Part {
                name: "delivery",
                source: Source::Random { strategy: delivery_strategy, cases: cases_fn!(6000, 120000) },
                oracle: c01_oracle,
            },
                Part {
                    name: "systematic",
                    source: Source::Systematic { strategy: delivery_strategy, cases: cases_fn!(20, 12) },
                    oracle: c01_oracle,
                },
                // the set of streams changes while values are in flight: streams leave (and one
                // joins and is drained) while producers send (the removal scenarios of C11)
                Part {
                    name: "while_streams_come_and_go",
                    source: Source::Random { strategy: comings_and_goings_strategy, cases: cases_fn!(3000, 60000) },
                    oracle: c01_oracle,
                },
            ],
            rule: "generated (configuration, per-thread programs, schedule) triples executed on the serialising scheduler; non-trivial = calls of different threads overlap AND more than N values were accepted (ring wrapped) AND at least one preemption happened inside a send/receive call; distinct = distinct hash of (scenario, realised trace)",
            assumptions: vec![SC_ASSUME, SAMPLE_ASSUME, "loss is only judged for streams that were told the end; values accepted while a stream was being created may or may not belong to it"],
        },
        PropDef {
            id: "C02",
            parts: vec![Part {
                name: "order",
                source: Source::Random { strategy: order_strategy, cases: cases_fn!(6000, 120000) },
                oracle: c02_oracle,
            },
                Part {
                    name: "systematic",
                    source: Source::Systematic { strategy: order_strategy, cases: cases_fn!(20, 12) },
                    oracle: c02_oracle,
                },
                Part {
                    name: "while_streams_come_and_go",
                    source: Source::Random { strategy: comings_and_goings_at_payload_strategy, cases: cases_fn!(4000, 80000) },
                    oracle: c02_oracle,
                },
            ],
            rule: "as C01; oracle = acyclicity of the precedence graph (send-before-send in real time, consecutive receives of one consumer, receive-before-receive on one stream); non-trivial = overlapping calls AND (overlapping accepted sends of two producers OR >= 2 streams) AND a preemption inside a call AND >= 2 accepted values",
            assumptions: vec![SC_ASSUME, SAMPLE_ASSUME],
        },
        PropDef {
            id: "C03",
            parts: vec![Part {
                name: "capacity",
                source: Source::Random { strategy: capacity_strategy, cases: cases_fn!(6000, 120000) },
                oracle: c03_oracle,
            },
                Part {
                    name: "systematic",
                    source: Source::Systematic { strategy: capacity_strategy, cases: cases_fn!(20, 12) },
                    oracle: c03_oracle,
                },
                // the set of streams the writers have to respect changes: streams are added
                // (concurrently, by several threads) while producers run into the bound
                Part {
                    name: "while_streams_are_added",
                    source: Source::Random { strategy: addstream_strategy, cases: cases_fn!(3000, 60000) },
                    oracle: c03_oracle,
                },
                // large rings, single-threaded against the model (round-9 seed C03-10)
                Part {
                    name: "large_capacities",
                    source: Source::RandomCostly { strategy: c03_large_strategy, cases: cases_fn!(44, 400) },
                    oracle: c03_large_oracle,
                },
            ],
            rule: "traffic profile with try_send bursts over requested capacities 0..9, plus the add_stream scenarios of C10 (streams added by several threads, from sole-handle and from shared parents, while producers run into the bound); oracle = counting bound per (accepted send, stream) plus no-loss; non-trivial = some send was refused and a later one accepted while a receive overlapped (the Full boundary was crossed under concurrency)",
            assumptions: vec![SC_ASSUME, SAMPLE_ASSUME],
        },
        PropDef {
            id: "C04",
            parts: vec![Part {
                name: "values",
                source: Source::Random { strategy: values_strategy, cases: cases_fn!(6000, 100000) },
                oracle: c04_oracle,
            },
                Part {
                    name: "systematic",
                    source: Source::Systematic { strategy: values_strategy, cases: cases_fn!(20, 12) },
                    oracle: c04_oracle,
                },
                Part {
                    name: "while_streams_are_added",
                    source: Source::Random { strategy: values_addstream_strategy, cases: cases_fn!(3000, 50000) },
                    oracle: c04_oracle,
                },
                // the same traffic with a payload type that has a hand-written Clone but no
                // destructor (mem::needs_drop is false): code that treats such a type specially -
                // the crate carries a TODO about skipping the pin for it - must still hand out
                // unchanged values (round-6 seed C04-7); runs in the pod_payload binary
                Part {
                    name: "values_without_destructor",
                    source: Source::Random { strategy: values_strategy, cases: cases_fn!(5000, 80000) },
                    oracle: c04_oracle,
                },
            ],
            rule: "traffic with N in {1,2,4}, 1-3 consumers per stream, shared, single-consumer and view receivers, streams added during traffic (consumer forks; the add_stream scenarios of C10); the payload's Clone and every view closure contain a scheduling point (targeted by a dedicated schedule policy) so a clone/view can be suspended while producers wrap the ring; oracle = payload self-checks (well-formed, live in the ledger, unchanged) at the start and end of every clone/view and on every delivered value; non-trivial = some clone/view was suspended while other threads ran AND the ring wrapped",
            assumptions: vec![SC_ASSUME, SAMPLE_ASSUME, "a payload write/read is one step for the scheduler: tearing inside one memcpy is not modelled"],
        },
        PropDef {
            id: "C06",
            parts: vec![Part {
                name: "quiescence",
                source: Source::Random { strategy: quiescence_strategy, cases: cases_fn!(6000, 120000) },
                oracle: c06_oracle,
            },
                Part {
                    name: "systematic",
                    source: Source::Systematic { strategy: quiescence_strategy, cases: cases_fn!(20, 12) },
                    oracle: c06_oracle,
                },
                // the degenerate case of the statement: with a single thread the queue is quiescent
                // between any two calls (the random histories of C09, churn bursts included)
                Part {
                    name: "sequential_histories",
                    source: Source::Random { strategy: c09_random, cases: cases_fn!(3000, 50000) },
                    oracle: c06_seq_oracle,
                },
            ],
            rule: "threads perform a bounded number of non-blocking sends/receives/clones/conversions and stop without draining (or leave for good); after joining them the controller probes single-threaded: fill to Full, drain every stream, refill (exactly N must be accepted), drain again - or, when every receiver has left, sends that must all be refused as Disconnected; compared with the model computed from the recorded history; plus sequential histories compared with the model call by call; non-trivial = the probe ran AND calls overlapped AND the ring wrapped",
            assumptions: vec![SC_ASSUME, SAMPLE_ASSUME, MODEL_ASSUME],
        },
        PropDef {
            id: "C10",
            parts: vec![Part {
                name: "addstream",
                source: Source::Random { strategy: addstream_strategy, cases: cases_fn!(6000, 120000) },
                oracle: c10_oracle,
            },
                Part {
                    name: "systematic",
                    source: Source::Systematic { strategy: addstream_strategy, cases: cases_fn!(20, 12) },
                    oracle: c10_oracle,
                },
            ],
            rule: "broadcast queues (plain and futures), N in {1,2,4}: a witness stream drained by its own thread gives the global order W; another thread calls add_stream on a parent stream (sole handle, or one of 2-3 handles with siblings receiving) while 1-2 producers wrap the ring, and the new stream is drained to the end; oracle = the new stream's sequence is a contiguous suffix W[P..] with P between the parent's position before and after the call, plus the delivery/order/capacity oracles on all streams; non-trivial = a send or sibling receive overlapped an add_stream call AND the ring wrapped",
            assumptions: vec![SC_ASSUME, SAMPLE_ASSUME],
        },
        PropDef {
            id: "C11",
            parts: vec![Part {
                name: "removal",
                source: Source::Random { strategy: removal_strategy, cases: cases_fn!(6000, 120000) },
                oracle: c11_oracle,
            },
                Part {
                    name: "systematic",
                    source: Source::Systematic { strategy: removal_strategy, cases: cases_fn!(20, 12) },
                    oracle: c11_oracle,
                },
            ],
            rule: "a slow stream (or extra handles of the only stream) whose 1-3 handles are dropped/unsubscribed by 1-2 threads while producers retry on a full queue and other streams drain; oracle = no producer is refused forever once every remaining stream has < N outstanding values (scheduler stuck state), unsubscribe return values, no loss and capacity bound on the remaining streams; non-trivial = a removal call overlapped a send attempt of another thread",
            assumptions: vec![SC_ASSUME, SAMPLE_ASSUME],
        },
        PropDef {
            id: "C14",
            parts: vec![
                Part {
                    name: "tasks",
                    source: Source::Random { strategy: tasks_strategy, cases: cases_fn!(6000, 100000) },
                    oracle: c14_oracle,
                },
                c14_seq_part(),
                Part {
                    name: "systematic",
                    source: Source::Systematic { strategy: tasks_strategy, cases: cases_fn!(20, 12) },
                    oracle: c14_oracle,
                },
                Part {
                    name: "hold_sweep",
                    source: Source::FreezeSweep { strategy: hold_sweep_strategy, cases: cases_fn!(12, 100), holds: true },
                    oracle: c14_oracle,
                },
            ],
            rule: "futures queues, N in {1,2}: Sink and Stream tasks on a deterministic executor (a NotReady task is blocked until Notify::notify), other threads draining through the direct methods or dropping handles; oracle = scheduler stuck state with a parked task that could make progress; sequential part: after every call that makes progress possible for a parked task the task must have been notified; part hold_sweep: for every generated scenario and every (thread, k <= 400) one execution in which that thread is held back at its k-th scheduling point until no other thread can make progress and then runs on, so that every window inside every poll / start_send / direct call is held open once while the others send, receive, park and leave; non-trivial (tasks, hold_sweep) = some task got NotReady and calls overlapped; (sequential) = some task parked",
            assumptions: vec![SC_ASSUME, SAMPLE_ASSUME],
        },
        PropDef {
            id: "C16",
            parts: vec![Part {
                name: "churn",
                source: Source::Random { strategy: churn_strategy, cases: cases_fn!(4000, 40000) },
                oracle: c16_oracle,
            }],
            rule: "N in {1,2}: writers on the Full boundary, 1-3 threads doing 4-60 rounds of add_stream/drop, clone/drop, unsubscribe, single<->multi conversion, idle handles that never operate; every block freed through the crate's allocator shim is quarantined and every instrumented access or dereference is checked against the freed ranges; non-trivial = at least one deferred-reclamation batch was freed while another thread was inside an API call",
            assumptions: vec![SC_ASSUME, SAMPLE_ASSUME, "quarantined addresses are never reused, so ABA on recycled addresses is not exercised", "only memory allocated through src/alloc.rs is tracked"],
        },
        PropDef {
            id: "C17",
            parts: vec![
                Part {
                    name: "teardown_seq",
                    source: Source::Random { strategy: c17_seq_strategy, cases: cases_fn!(4000, 60000) },
                    oracle: c17_teardown_oracle,
                },
                Part {
                    name: "teardown_concurrent",
                    source: Source::Random { strategy: c17_conc_strategy, cases: cases_fn!(2000, 30000) },
                    oracle: c17_teardown_oracle,
                },
                Part {
                    name: "churn",
                    source: Source::RandomCostly { strategy: c17_churn_strategy, cases: cases_fn!(12, 48) },
                    oracle: c17_churn_oracle,
                },
            ],
            rule: "a counting global allocator attributes to the queue every block allocated while a thread is inside a call into the crate (harness allocations excluded by scope) and tracks it until freed. Teardown: sequential histories and concurrent traffic over capacities 0..9 ending in generated teardown orders; the bytes live after the last handle is dropped must equal the bytes live before the queue was created. Churn: 4c cycles (c in 100..10^4 quick, ..10^5 thorough) of a generated mix of add_stream/drop, clone/drop, single<->multi conversions while the long-lived handles send and receive every cycle, optionally with a concurrent traffic thread and an earlier drop of a non-last handle; live bytes after 4c cycles may exceed those after 2c cycles by at most 4096 bytes; non-trivial (teardown) = a stream was added and values were left in the ring; (churn) = all three samples taken and at least one reclamation batch ran",
            assumptions: vec![SAMPLE_ASSUME, "memory allocated by the crate outside API calls (there is none: the crate has no background threads) would not be attributed"],
        },
        PropDef {
            id: "C18",
            parts: vec![Part {
                name: "probes",
                source: Source::Random { strategy: probe_strategy, cases: cases_fn!(6000, 100000) },
                oracle: c18_oracle,
            },
            Part {
                name: "probes_during_churn",
                source: Source::Random { strategy: probe_churn_strategy, cases: cases_fn!(1500, 25000) },
                oracle: c18_oracle,
            },
            Part {
                name: "freeze_sweep",
                source: Source::FreezeSweep { strategy: freeze_strategy, cases: cases_fn!(12, 120), holds: false },
                oracle: c18_oracle,
            }],
            rule: "traffic on busy/yielding queues, and handle/stream churn scenarios (enough retirements to open reclamation epochs, so that the manager locks are taken and the epoch signal is raised); at generated points one thread freezes all others wherever they are and runs a single try_send / try_recv / try_recv_view alone; oracle = the call returns within 300 of its own scheduling points and never blocks on a lock held by a frozen thread; in addition EVERY try operation of every execution (not only the probes) may execute at most 300 scheduling points in a row without another thread changing shared state in between; part freeze_sweep: for every generated scenario and every (thread, k <= 400) one execution in which that thread is suspended for good at its k-th scheduling point while the others run on - none of their try operations may spin (same bound) or be found blocked on a lock; non-trivial = the probe ran while another thread was frozen strictly inside an API call (freeze sweep: the suspended thread was inside an API call)",
            assumptions: vec![SC_ASSUME, SAMPLE_ASSUME],
        },
        PropDef {
            id: "C05",
            parts: vec![
                Part {
                    name: "seq_random",
                    source: Source::Random { strategy: c05_random, cases: cases_fn!(5000, 80000) },
                    oracle: c05_oracle,
                },
                Part {
                    name: "seq_exhaustive",
                    source: Source::Exhaustive { enumerate: c05_exhaustive },
                    oracle: c05_oracle,
                },
                Part {
                    name: "concurrent",
                    source: Source::Random { strategy: c05_conc_strategy, cases: cases_fn!(3000, 50000) },
                    oracle: c05_conc_oracle,
                },
            ],
            rule: "sequential API histories (random, 1-400 calls, and every sequence up to depth 4/5 over a reduced alphabet) and small concurrent scenarios, all ending in a generated teardown order; oracle = per-instance ledger (every instance dropped exactly once, none dropped twice, none reachable after drop); non-trivial = at least one payload AND (teardown with undelivered values OR streams at different positions OR a receiver dropped before the last sender)",
            assumptions: vec![SAMPLE_ASSUME, "the payload type owns no heap memory so that double drops are observable without undefined behaviour in the harness"],
        },
        PropDef {
            id: "C07",
            parts: vec![Part {
                name: "hangup",
                source: Source::Random { strategy: hangup_strategy, cases: cases_fn!(6000, 120000) },
                oracle: c07_oracle,
            },
                Part {
                    name: "systematic",
                    source: Source::Systematic { strategy: hangup_strategy, cases: cases_fn!(20, 12) },
                    oracle: c07_oracle,
                },
                // more stream tasks parked at the last sender's drop than threads can provide
                Part {
                    name: "crowd_of_parked_stream_tasks",
                    source: Source::Random { strategy: c07_crowd_strategy, cases: cases_fn!(1000, 20000) },
                    oracle: c14_seq_oracle,
                },
            ],
            rule: "traffic profile with cloned/dropped senders and every receive entry point; oracle = per end report: no sender alive during the whole call, no accepted value undelivered and not in flight, end stable afterwards; non-trivial = an end report overlaps the last accepted send or the last sender drop. Part crowd_of_parked_stream_tasks: sequential histories in which 6..13 stream tasks (shared handles and separate streams) are parked on an empty futures queue when the last sender is dropped or unsubscribed; oracle = every one of them has been notified when that call returns; non-trivial = a task parked",
            assumptions: vec![SC_ASSUME, SAMPLE_ASSUME],
        },
        PropDef {
            id: "C08",
            parts: vec![Part {
                name: "wakeup",
                source: Source::Random { strategy: wakeup_strategy, cases: cases_fn!(6000, 120000) },
                oracle: c08_oracle,
            },
                Part {
                    name: "systematic",
                    source: Source::Systematic { strategy: wakeup_strategy, cases: cases_fn!(20, 12) },
                    oracle: c08_oracle,
                },
            ],
            rule: "plain handles under every built-in wait strategy (busy, yielding, blocking; zero, small and default spin counts), N in {1,2,4}; consumers only use blocking entry points (recv, recv_view, blocking iterators), some leave after a few values, producers keep their sender alive until one of their values has been delivered; oracle = scheduler stuck state (deadlock, or no value-changing write for 4000 points) with a thread inside a blocking receive while its stream has an accepted undelivered value or every sender is gone; non-trivial = some blocking receive began before the value or hang-up it returned had happened",
            assumptions: vec![SC_ASSUME, SAMPLE_ASSUME, "fair scheduling: a thread that spins read-only for 40 points lets the others run; a stuck verdict needs 4000 consecutive points without any value-changing write"],
        },
        PropDef {
            id: "C09",
            parts: vec![
                Part {
                    name: "seq_random",
                    source: Source::Random { strategy: c09_random, cases: cases_fn!(6000, 100000) },
                    oracle: c09_oracle,
                },
                Part {
                    name: "seq_exhaustive",
                    source: Source::Exhaustive { enumerate: c09_exhaustive },
                    oracle: c09_oracle,
                },
            ],
            rule: "single-threaded histories over the whole public API of all handle families, requested capacities 0..9: random (1-400 calls) and every sequence up to depth 4 (quick) / 5 (thorough) over a reduced alphabet for N in {1,2} x {broadcast,mpmc} x {plain,futures}; every return value compared with the reference model, each call bounded in steps; non-trivial = the ring wrapped AND one of {add_stream after consumption, futures NotReady, non-power-of-two request, single/multi conversion, receiver removal}",
            assumptions: vec![MODEL_ASSUME, "blocking calls are only issued when the model says they return"],
        },
        PropDef {
            id: "C12",
            parts: vec![Part {
                name: "population",
                source: Source::Random { strategy: population_strategy, cases: cases_fn!(6000, 120000) },
                oracle: c12_oracle,
            },
                Part {
                    name: "population_of_tasks",
                    source: Source::Random { strategy: population_tasks_strategy, cases: cases_fn!(4000, 80000) },
                    oracle: c12_oracle,
                },
                Part {
                    name: "systematic",
                    source: Source::Systematic { strategy: population_strategy, cases: cases_fn!(20, 12) },
                    oracle: c12_oracle,
                },
            ],
            rule: "traffic profile whose threads clone/drop senders and receivers and convert single<->multi between operations (plain threads, and Sink/Stream tasks with leaving consumers on futures queues); oracles of C01+C02+C03+C07, refusals outside any overlap, every stuck state; non-trivial = at least two handle-population changes overlap a send/receive of another thread",
            assumptions: vec![SC_ASSUME, SAMPLE_ASSUME],
        },
        PropDef {
            id: "C13",
            parts: vec![
                Part {
                    name: "seq",
                    source: Source::Random { strategy: c13_strategy, cases: cases_fn!(5000, 80000) },
                    oracle: c13_oracle,
                },
                Part {
                    name: "sink_race",
                    source: Source::Random { strategy: c13_conc_strategy, cases: cases_fn!(4000, 80000) },
                    oracle: c13_conc_oracle,
                },
                Part {
                    name: "systematic_sink_race",
                    source: Source::Systematic { strategy: c13_conc_strategy, cases: cases_fn!(20, 12) },
                    oracle: c13_conc_oracle,
                },
            ],
            rule: "sequential: random traffic prefix, then every receiver handle dropped/unsubscribed/consumed in a generated order, then sends through every sender flavour; concurrent: sink tasks sending into a full futures queue while other threads drop the receivers; oracle = every send that starts after the last receiver's removal returned is Disconnected / Err with the value handed back, and no sink task stays parked; non-trivial (seq) = sends after the last removal AND (>= 2 removals OR values still queued OR removal in non-creation order); (concurrent) = a sink task parked and calls overlapped",
            assumptions: vec![SC_ASSUME, SAMPLE_ASSUME],
        },
        PropDef {
            id: "C15",
            parts: vec![
                Part {
                    name: "seq_random",
                    source: Source::Random { strategy: c15_random, cases: cases_fn!(5000, 80000) },
                    oracle: c15_oracle,
                },
                Part {
                    name: "seq_exhaustive",
                    source: Source::Exhaustive { enumerate: c15_exhaustive },
                    oracle: c15_oracle,
                },
                Part {
                    name: "concurrent",
                    source: Source::Random { strategy: c15_conc_strategy, cases: cases_fn!(3000, 50000) },
                    oracle: c15_conc_oracle,
                },
            ],
            rule: "futures handles only. Sequential histories mixing start_send/poll_complete/poll with the direct methods (random and exhaustive to depth 4/5), each call run alone under a step bound base+k*(try_spins+yield_spins), and a task that was given NotReady must have been notified by the time a call that makes progress possible for it returns; concurrent traffic through Sink/Stream tasks on the deterministic executor with the C01/C02/C03/C07 oracles; non-trivial (seq) = NotReady seen from both sides OR a poll of a never-written slot OR a direct method call between two polls; (concurrent) = wrap AND overlap AND some NotReady",
            assumptions: vec![MODEL_ASSUME, SC_ASSUME, SAMPLE_ASSUME, "configured spin counts and the fixed post-park sleep are bounded delays and are not flagged"],
        },
    ]
}

fn c07_crowd_strategy(_t: Tier) -> BoxedStrategy<Scenario> {
    gen::crowd_scenario(seq_opts(), true)
}

fn c14_seq_strategy(t: Tier) -> BoxedStrategy<Scenario> {
    prop_oneof![
        8 => c15_random(t),
        1 => gen::crowd_scenario(seq_opts(), false),
    ]
    .boxed()
}

pub fn c14_seq_part() -> Part {
    Part {
        name: "seq_notify",
        source: Source::Random { strategy: c14_seq_strategy, cases: cases_fn!(5000, 80000) },
        oracle: c14_seq_oracle,
    }
}
