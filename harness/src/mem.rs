//! E3: a counting global allocator.  It counts the bytes and blocks that are allocated *while a
//! managed thread is inside a call into the crate* (the harness's own allocations are excluded by
//! scope guards) and that have not been freed yet.  A fixed-size lock-free table remembers which
//! blocks were counted, so that a free on any thread, at any time, is attributed correctly.

use std::alloc::{GlobalAlloc, Layout, System};
use std::cell::Cell;
use std::sync::atomic::{AtomicBool, AtomicI64, AtomicUsize, Ordering};

pub struct CountingAlloc;

const TABLE_BITS: usize = 20;
const TABLE_SIZE: usize = 1 << TABLE_BITS;
const EMPTY: usize = 0;
const TOMB: usize = 1;

static KEYS: [AtomicUsize; TABLE_SIZE] = [const { AtomicUsize::new(EMPTY) }; TABLE_SIZE];
static SIZES: [AtomicUsize; TABLE_SIZE] = [const { AtomicUsize::new(0) }; TABLE_SIZE];
static ENABLED: AtomicBool = AtomicBool::new(false);
static LIVE_BYTES: AtomicI64 = AtomicI64::new(0);
static LIVE_BLOCKS: AtomicI64 = AtomicI64::new(0);
static TABLE_FULL: AtomicBool = AtomicBool::new(false);

thread_local! {
    static COUNTING: Cell<bool> = const { Cell::new(false) };
}

#[inline]
fn slot_of(p: usize) -> usize {
    // pointers are at least 8-aligned; mix the bits
    let x = (p >> 3).wrapping_mul(0x9E3779B97F4A7C15);
    x >> (64 - TABLE_BITS)
}

fn insert(p: usize, size: usize) {
    let mut i = slot_of(p);
    for _ in 0..TABLE_SIZE {
        let k = KEYS[i].load(Ordering::Relaxed);
        if k == EMPTY || k == TOMB {
            if KEYS[i]
                .compare_exchange(k, p, Ordering::AcqRel, Ordering::Relaxed)
                .is_ok()
            {
                SIZES[i].store(size, Ordering::Release);
                return;
            }
            continue;
        }
        i = (i + 1) & (TABLE_SIZE - 1);
    }
    TABLE_FULL.store(true, Ordering::Relaxed);
}

fn remove(p: usize) -> Option<usize> {
    let mut i = slot_of(p);
    for _ in 0..TABLE_SIZE {
        let k = KEYS[i].load(Ordering::Acquire);
        if k == EMPTY {
            return None;
        }
        if k == p {
            let sz = SIZES[i].load(Ordering::Acquire);
            // keep probe chains intact: leave a tombstone unless the next slot is empty
            let next = (i + 1) & (TABLE_SIZE - 1);
            let repl = if KEYS[next].load(Ordering::Relaxed) == EMPTY { EMPTY } else { TOMB };
            KEYS[i].store(repl, Ordering::Release);
            return Some(sz);
        }
        i = (i + 1) & (TABLE_SIZE - 1);
    }
    None
}

unsafe impl GlobalAlloc for CountingAlloc {
    unsafe fn alloc(&self, layout: Layout) -> *mut u8 {
        let p = System.alloc(layout);
        if !p.is_null() && ENABLED.load(Ordering::Relaxed) && COUNTING.with(|c| c.get()) {
            insert(p as usize, layout.size());
            LIVE_BYTES.fetch_add(layout.size() as i64, Ordering::Relaxed);
            LIVE_BLOCKS.fetch_add(1, Ordering::Relaxed);
        }
        p
    }

    unsafe fn dealloc(&self, p: *mut u8, layout: Layout) {
        // also while accounting is switched off: a counted block that is freed then must leave
        // the table, or a later block at the same address would be mistaken for it (in a process
        // that never counts, the probe ends at the first, empty, slot)
        if let Some(sz) = remove(p as usize) {
            LIVE_BYTES.fetch_sub(sz as i64, Ordering::Relaxed);
            LIVE_BLOCKS.fetch_sub(1, Ordering::Relaxed);
        }
        System.dealloc(p, layout)
    }
}

pub fn enable(on: bool) {
    ENABLED.store(on, Ordering::SeqCst);
}

pub fn live() -> (i64, i64) {
    (LIVE_BYTES.load(Ordering::SeqCst), LIVE_BLOCKS.load(Ordering::SeqCst))
}

pub fn table_overflowed() -> bool {
    TABLE_FULL.load(Ordering::Relaxed)
}

/// sizes of the blocks that are counted and still live (for diagnostics; at most `max`)
pub fn live_block_sizes(max: usize) -> Vec<usize> {
    let mut out = Vec::new();
    for i in 0..TABLE_SIZE {
        let k = KEYS[i].load(Ordering::Relaxed);
        if k != EMPTY && k != TOMB {
            out.push(SIZES[i].load(Ordering::Relaxed));
            if out.len() >= max {
                break;
            }
        }
    }
    out.sort();
    out
}

pub fn is_counting() -> bool {
    COUNTING.with(|c| c.get())
}

/// Scope during which allocations of this thread are attributed to the crate under test.
pub struct Count(bool);

impl Count {
    pub fn on() -> Count {
        let prev = COUNTING.with(|c| c.replace(true));
        Count(prev)
    }
}

impl Drop for Count {
    fn drop(&mut self) {
        COUNTING.with(|c| c.set(self.0));
    }
}

/// Scope during which allocations of this thread belong to the harness (nested inside `Count`).
pub struct NoCount(bool);

impl NoCount {
    #[inline]
    pub fn new() -> NoCount {
        let prev = COUNTING.with(|c| c.replace(false));
        NoCount(prev)
    }
}

impl Drop for NoCount {
    #[inline]
    fn drop(&mut self) {
        COUNTING.with(|c| c.set(self.0));
    }
}
