//! Harness library: scheduler runtime, operations, oracles, generators, property registry.
#![allow(dead_code)]
pub mod gen;
pub mod handles;
pub mod mem;
pub mod model;
pub mod ops;
pub mod oracles;
pub mod payload;
pub mod props;
pub mod rt;
pub mod runner;
