//! The payload type sent through the queues and the per-execution ledger that tracks every
//! instance from birth to drop.  The payload owns no heap memory, so a double drop or a read of an
//! overwritten slot is observable without undefined behaviour in the harness.

use crate::rt::{sched, ADDR_PAYLOAD};
use std::sync::Mutex;

#[derive(Clone, Copy, Debug, PartialEq, Eq, Hash, PartialOrd, Ord, serde::Serialize, serde::Deserialize)]
pub struct Seen {
    pub id: u64,
    pub serial: u32,
}

#[derive(Clone, Debug, PartialEq, Eq, serde::Serialize, serde::Deserialize)]
pub enum PayloadEvent {
    DoubleDrop { id: u64, serial: u32, drops: u32 },
    DropOfUnknown { id: u64, serial: u32 },
    CorruptAtClone { id: u64, not_id: u64, serial: u32 },
    DeadAtClone { id: u64, serial: u32 },
    ChangedDuringClone { before: u64, after: u64 },
    DeadDuringClone { id: u64, serial: u32 },
    CorruptAtView { id: u64, not_id: u64, serial: u32 },
    DeadAtView { id: u64, serial: u32 },
    ChangedDuringView { before: u64, after: u64 },
    DeadDuringView { id: u64, serial: u32 },
    CorruptDelivered { id: u64, not_id: u64, serial: u32 },
    DeadDelivered { id: u64, serial: u32 },
    ChangedDuringDrop { before: u64, after: u64 },
}

impl PayloadEvent {
    pub fn kind(&self) -> &'static str {
        match self {
            PayloadEvent::DoubleDrop { .. } => "DoubleDrop",
            PayloadEvent::DropOfUnknown { .. } => "DropOfUnknown",
            PayloadEvent::CorruptAtClone { .. } => "CorruptAtClone",
            PayloadEvent::DeadAtClone { .. } => "DeadAtClone",
            PayloadEvent::ChangedDuringClone { .. } => "ChangedDuringClone",
            PayloadEvent::DeadDuringClone { .. } => "DeadDuringClone",
            PayloadEvent::CorruptAtView { .. } => "CorruptAtView",
            PayloadEvent::DeadAtView { .. } => "DeadAtView",
            PayloadEvent::ChangedDuringView { .. } => "ChangedDuringView",
            PayloadEvent::DeadDuringView { .. } => "DeadDuringView",
            PayloadEvent::CorruptDelivered { .. } => "CorruptDelivered",
            PayloadEvent::DeadDelivered { .. } => "DeadDelivered",
            PayloadEvent::ChangedDuringDrop { .. } => "ChangedDuringDrop",
        }
    }
}

#[derive(Clone, Copy, Debug, PartialEq, Eq)]
enum EState {
    Live,
    Dropped,
}

#[derive(Clone, Debug)]
struct Entry {
    id: u64,
    state: EState,
    drops: u32,
    is_clone: bool,
}

pub struct Ledger {
    exec: u32,
    entries: Vec<Entry>,
    pub events: Vec<PayloadEvent>,
    /// clone/view observations during which other threads ran
    pub suspended_obs: u64,
    pub clones: u64,
    pub views: u64,
}

#[derive(Clone, Debug, Default, serde::Serialize, serde::Deserialize)]
pub struct LedgerSummary {
    pub born: u64,
    pub clones: u64,
    pub views: u64,
    pub live_at_end: Vec<Seen>,
    pub events: Vec<PayloadEvent>,
    pub suspended_obs: u64,
}

static LEDGER: Mutex<Ledger> = Mutex::new(Ledger {
    exec: 0,
    entries: Vec::new(),
    events: Vec::new(),
    suspended_obs: 0,
    clones: 0,
    views: 0,
});

fn ledger() -> std::sync::MutexGuard<'static, Ledger> {
    match LEDGER.lock() {
        Ok(g) => g,
        Err(p) => p.into_inner(),
    }
}

/// Starts a fresh ledger for a new execution.
pub fn ledger_reset() {
    let mut l = ledger();
    l.exec = l.exec.wrapping_add(1);
    l.entries.clear();
    l.events.clear();
    l.suspended_obs = 0;
    l.clones = 0;
    l.views = 0;
}

pub fn ledger_summary() -> LedgerSummary {
    let l = ledger();
    LedgerSummary {
        born: l.entries.iter().filter(|e| !e.is_clone).count() as u64,
        clones: l.clones,
        views: l.views,
        live_at_end: l
            .entries
            .iter()
            .enumerate()
            .filter(|(_, e)| e.state == EState::Live)
            .map(|(i, e)| Seen {
                id: e.id,
                serial: i as u32,
            })
            .collect(),
        events: l.events.clone(),
        suspended_obs: l.suspended_obs,
    }
}

pub fn ledger_event_count() -> usize {
    ledger().events.len()
}

impl Ledger {
    fn push_event(&mut self, e: PayloadEvent) {
        if self.events.len() < 64 {
            self.events.push(e);
        }
    }

    fn is_live(&self, serial: u32, id: u64) -> bool {
        match self.entries.get(serial as usize) {
            Some(e) => e.state == EState::Live && e.id == id,
            None => false,
        }
    }

    fn register(&mut self, id: u64, is_clone: bool) -> u32 {
        self.entries.push(Entry {
            id,
            state: EState::Live,
            drops: 0,
            is_clone,
        });
        (self.entries.len() - 1) as u32
    }
}

#[repr(C)]
pub struct Tracked {
    id: u64,
    not_id: u64,
    serial: u32,
    exec: u32,
}

#[derive(Clone, Copy, PartialEq, Eq)]
struct Raw {
    id: u64,
    not_id: u64,
    serial: u32,
    exec: u32,
}

impl Tracked {
    pub fn new(id: u64) -> Tracked {
        let _nc = crate::mem::NoCount::new();
        let mut l = ledger();
        let serial = l.register(id, false);
        Tracked {
            id,
            not_id: !id,
            serial,
            exec: l.exec,
        }
    }

    #[inline(always)]
    fn raw(&self) -> Raw {
        unsafe {
            let p = self as *const Tracked;
            Raw {
                id: std::ptr::read_volatile(&(*p).id),
                not_id: std::ptr::read_volatile(&(*p).not_id),
                serial: std::ptr::read_volatile(&(*p).serial),
                exec: std::ptr::read_volatile(&(*p).exec),
            }
        }
    }

    pub fn seen(&self) -> Seen {
        let r = self.raw();
        Seen {
            id: r.id,
            serial: r.serial,
        }
    }

    /// Checks a value handed to the consumer by the queue (moved out or cloned).
    pub fn check_delivered(&self) -> Seen {
        let _nc = crate::mem::NoCount::new();
        let r = self.raw();
        let mut l = ledger();
        if r.exec == l.exec {
            if r.id != !r.not_id {
                l.push_event(PayloadEvent::CorruptDelivered {
                    id: r.id,
                    not_id: r.not_id,
                    serial: r.serial,
                });
            } else if !l.is_live(r.serial, r.id) {
                l.push_event(PayloadEvent::DeadDelivered {
                    id: r.id,
                    serial: r.serial,
                });
            }
        }
        Seen {
            id: r.id,
            serial: r.serial,
        }
    }

    /// The observation a view closure makes: check, scheduling point, check again.
    pub fn view(&self) -> Seen {
        let _nc = crate::mem::NoCount::new();
        let a = self.raw();
        {
            let mut l = ledger();
            l.views += 1;
            if a.id != !a.not_id {
                l.push_event(PayloadEvent::CorruptAtView {
                    id: a.id,
                    not_id: a.not_id,
                    serial: a.serial,
                });
            } else if a.exec == l.exec && !l.is_live(a.serial, a.id) {
                l.push_event(PayloadEvent::DeadAtView {
                    id: a.id,
                    serial: a.serial,
                });
            }
        }
        let t0 = sched().now();
        sched().harness_point(ADDR_PAYLOAD);
        let t1 = sched().now();
        let b = self.raw();
        let mut l = ledger();
        if t1 > t0 + 1 {
            l.suspended_obs += 1;
        }
        if b != a {
            l.push_event(PayloadEvent::ChangedDuringView {
                before: a.id,
                after: b.id,
            });
        } else if a.exec == l.exec && a.id == !a.not_id && !l.is_live(a.serial, a.id) {
            l.push_event(PayloadEvent::DeadDuringView {
                id: a.id,
                serial: a.serial,
            });
        }
        Seen {
            id: a.id,
            serial: a.serial,
        }
    }
}

impl Clone for Tracked {
    fn clone(&self) -> Tracked {
        let _nc = crate::mem::NoCount::new();
        let a = self.raw();
        {
            let mut l = ledger();
            l.clones += 1;
            if a.id != !a.not_id {
                l.push_event(PayloadEvent::CorruptAtClone {
                    id: a.id,
                    not_id: a.not_id,
                    serial: a.serial,
                });
            } else if a.exec == l.exec && !l.is_live(a.serial, a.id) {
                l.push_event(PayloadEvent::DeadAtClone {
                    id: a.id,
                    serial: a.serial,
                });
            }
        }
        let t0 = sched().now();
        sched().harness_point(ADDR_PAYLOAD);
        let t1 = sched().now();
        let b = self.raw();
        let mut l = ledger();
        if t1 > t0 + 1 {
            l.suspended_obs += 1;
        }
        if b != a {
            l.push_event(PayloadEvent::ChangedDuringClone {
                before: a.id,
                after: b.id,
            });
        } else if a.exec == l.exec && a.id == !a.not_id && !l.is_live(a.serial, a.id) {
            l.push_event(PayloadEvent::DeadDuringClone {
                id: a.id,
                serial: a.serial,
            });
        }
        let serial = l.register(a.id, true);
        Tracked {
            id: a.id,
            not_id: !a.id,
            serial,
            exec: l.exec,
        }
    }
}

#[cfg(not(feature = "pod_payload"))]
impl Drop for Tracked {
    fn drop(&mut self) {
        let _nc = crate::mem::NoCount::new();
        let r0 = self.raw();
        // A destructor run by the crate is user code during which the other threads run: the
        // memory of the value must stay untouched until it returns.
        if !crate::rt::genuinely_panicking() && sched().in_call() {
            sched().harness_point(ADDR_PAYLOAD);
        }
        let r = self.raw();
        let mut l = ledger();
        if r != r0 && r0.exec == l.exec {
            l.push_event(PayloadEvent::ChangedDuringDrop {
                before: r0.id,
                after: r.id,
            });
        }
        // the destructor's body runs after the scheduling point: it destroys whatever is there now
        if r.exec != l.exec {
            // instance of an earlier (torn down) execution: ignore
            return;
        }
        if r.id != !r.not_id {
            l.push_event(PayloadEvent::DropOfUnknown {
                id: r.id,
                serial: r.serial,
            });
            return;
        }
        let known = match l.entries.get_mut(r.serial as usize) {
            Some(e) if e.id == r.id => {
                e.drops += 1;
                let d = e.drops;
                let was_live = e.state == EState::Live;
                e.state = EState::Dropped;
                Some((was_live, d))
            }
            _ => None,
        };
        match known {
            Some((true, _)) => {}
            Some((false, d)) => l.push_event(PayloadEvent::DoubleDrop {
                id: r.id,
                serial: r.serial,
                drops: d,
            }),
            None => l.push_event(PayloadEvent::DropOfUnknown {
                id: r.id,
                serial: r.serial,
            }),
        }
    }
}
