//! Drives a property: proptest generation and shrinking, exhaustive enumeration, known-finding
//! matching, evidence counters, replay files.

use crate::ops::{run_scenario, Execution, Scenario};
use crate::oracles::Finding;
use proptest::strategy::BoxedStrategy;
use proptest::test_runner::{Config, RngAlgorithm, TestCaseError, TestError, TestRng, TestRunner};
use serde::{Deserialize, Serialize};
use std::cell::RefCell;
use std::collections::{BTreeMap, BTreeSet};
use std::hash::{Hash, Hasher};

#[derive(Clone, Copy, Debug, PartialEq, Eq, Serialize, Deserialize)]
pub enum Tier {
    Quick,
    Thorough,
}

#[derive(Default)]
pub struct CaseInfo {
    pub nontrivial: bool,
    pub classes: Vec<String>,
    pub counters: Vec<(String, u64)>,
    pub maxima: Vec<(String, u64)>,
}

impl CaseInfo {
    pub fn class<S: Into<String>>(&mut self, s: S) {
        self.classes.push(s.into());
    }
    pub fn count(&mut self, k: &str, v: u64) {
        self.counters.push((k.to_string(), v));
    }
    pub fn max(&mut self, k: &str, v: u64) {
        self.maxima.push((k.to_string(), v));
    }
}

pub type Oracle = fn(&Scenario, &Execution, &mut CaseInfo) -> Vec<Finding>;

pub enum Source {
    Random {
        strategy: fn(Tier) -> BoxedStrategy<Scenario>,
        cases: fn(Tier) -> u32,
    },
    /// like Random, for expensive cases: few shrink iterations
    RandomCostly {
        strategy: fn(Tier) -> BoxedStrategy<Scenario>,
        cases: fn(Tier) -> u32,
    },
    /// for every generated scenario: the non-preemptive schedule, every schedule that deviates from
    /// it at exactly one decision, and (thorough) every schedule with two deviations at most
    /// `SYSTEMATIC_WINDOW` decisions apart
    Systematic {
        strategy: fn(Tier) -> BoxedStrategy<Scenario>,
        cases: fn(Tier) -> u32,
    },
    /// for every generated scenario: the execution as generated, then one execution for every
    /// (thread other than the controller, k <= FREEZE_MAX_POINTS) in which that thread is suspended
    /// for good at its k-th scheduling point while the others run on (C18)
    FreezeSweep {
        strategy: fn(Tier) -> BoxedStrategy<Scenario>,
        cases: fn(Tier) -> u32,
        /// true: the thread is not suspended for good but held back until no other thread can make
        /// progress, then runs on (C14: every window of every call is held open once)
        holds: bool,
    },
    /// a finite family enumerated completely; `index` picks the shard's share
    Exhaustive {
        enumerate: fn(Tier) -> Box<dyn Iterator<Item = Scenario>>,
    },
}

pub struct Part {
    pub name: &'static str,
    pub source: Source,
    pub oracle: Oracle,
}

pub struct PropDef {
    pub id: &'static str,
    pub parts: Vec<Part>,
    pub rule: &'static str,
    pub assumptions: Vec<&'static str>,
}

#[derive(Clone, Debug, Serialize, Deserialize)]
pub struct KnownFinding {
    pub id: String,
    pub status: String,
    pub properties: Vec<String>,
    #[serde(default)]
    pub signature: BTreeMap<String, serde_json::Value>,
    pub what: String,
    #[serde(default)]
    pub commit: Option<String>,
}

#[derive(Clone, Debug, Default, Serialize, Deserialize)]
pub struct KnownFile {
    pub findings: Vec<KnownFinding>,
}

pub fn matches_known(k: &KnownFinding, prop: &str, f: &Finding) -> bool {
    if k.status != "known" || !k.properties.iter().any(|p| p == prop) {
        return false;
    }
    let kinds = match k.signature.get("kind").and_then(|v| v.as_str()) {
        Some(s) => s,
        None => return false,
    };
    if !kinds.split('|').any(|x| x == f.kind) {
        return false;
    }
    for (key, want) in &k.signature {
        if key == "kind" {
            continue;
        }
        if let Some(base) = key.strip_prefix("min_") {
            let have = f.facts.get(base).and_then(|v| v.as_u64());
            match (have, want.as_u64()) {
                (Some(h), Some(w)) if h >= w => {}
                _ => return false,
            }
        } else if f.facts.get(key) != Some(want) {
            return false;
        }
    }
    true
}

#[derive(Clone, Debug, Serialize, Deserialize)]
pub struct ViolationReport {
    pub part: String,
    pub findings: Vec<Finding>,
    pub scenario: Scenario,
    pub trace_rle: Vec<(u8, u32)>,
    pub verdict: String,
    pub shrunk: bool,
}

#[derive(Clone, Debug, Default, Serialize, Deserialize)]
pub struct Report {
    pub prop: String,
    pub tier: String,
    pub seed: u64,
    pub shard: (u32, u32),
    pub evaluations: u64,
    pub nontrivial_hashes: Vec<u64>,
    pub classes: BTreeMap<String, u64>,
    pub verdicts: BTreeMap<String, u64>,
    pub counters: BTreeMap<String, u64>,
    pub maxima: BTreeMap<String, u64>,
    pub excluded_known: BTreeMap<String, u64>,
    pub known_what: BTreeMap<String, String>,
    pub unexplained_stuck: u64,
    pub violations: Vec<ViolationReport>,
    pub samples: Vec<serde_json::Value>,
    pub exhaustive_parts: Vec<String>,
    #[serde(default)]
    pub systematic_parts: Vec<String>,
    pub parts: BTreeMap<String, u64>,
    pub wall_s: f64,
}

/// detection-only runs (the seed matrix) skip shrinking and minimisation
fn no_shrink() -> bool {
    std::env::var("MQV_NO_SHRINK").map(|v| v == "1").unwrap_or(false)
}

pub const SYSTEMATIC_WINDOW: u32 = 12;
pub const SYSTEMATIC_MAX_DECISIONS: u64 = 600;

pub fn rle(trace: &[u8]) -> Vec<(u8, u32)> {
    let mut out: Vec<(u8, u32)> = Vec::new();
    for t in trace {
        match out.last_mut() {
            Some((v, n)) if *v == *t => *n += 1,
            _ => out.push((*t, 1)),
        }
    }
    out
}

pub fn unrle(r: &[(u8, u32)]) -> Vec<u8> {
    let mut out = Vec::new();
    for (v, n) in r {
        for _ in 0..*n {
            out.push(*v);
        }
    }
    out
}

pub fn hash_case(sc: &Scenario, ex: &Execution) -> u64 {
    let mut h = std::collections::hash_map::DefaultHasher::new();
    let s = serde_json::to_string(sc).unwrap_or_default();
    s.hash(&mut h);
    ex.outcome.trace.hash(&mut h);
    h.finish()
}

fn verdict_name(ex: &Execution) -> &'static str {
    use crate::rt::Verdict::*;
    match ex.outcome.verdict {
        Completed => "completed",
        Deadlock => "deadlock",
        Livelock => "livelock",
        Budget => "budget_inconclusive",
        Panic(..) => "panic",
        Fault(..) => "fault",
        SoloBound(..) => "solo_bound",
        TryOpSpins(..) => "try_op_spins",
        SoloBlocked(..) => "solo_blocked",
    }
}

pub fn render_sample(sc: &Scenario, ex: &Execution) -> serde_json::Value {
    let calls: Vec<String> = ex
        .calls
        .iter()
        .take(60)
        .map(|c| {
            format!(
                "p{} #{} {:?} h{} s{} [{}-{}] {:?}",
                c.prog,
                c.op_idx,
                c.kind,
                c.handle,
                if c.stream == u32::MAX { -1 } else { c.stream as i64 },
                c.t0,
                c.t1,
                c.res
            )
        })
        .collect();
    serde_json::json!({
        "queue": sc.q,
        "programs": sc.progs.iter().map(|p| format!("{:?}", p.ops)).collect::<Vec<_>>(),
        "policy": format!("{:?}", sc.sched.policy),
        "schedule_bytes": sc.sched.bytes.len(),
        "verdict": verdict_name(ex),
        "steps": ex.outcome.steps,
        "switches": ex.outcome.switches,
        "trace_rle_head": rle(&ex.outcome.trace).into_iter().take(40).collect::<Vec<_>>(),
        "calls_total": ex.calls.len(),
        "calls_head": calls,
    })
}

struct Acc<'a> {
    rep: Report,
    seen: BTreeSet<u64>,
    known: &'a KnownFile,
    prop: &'a str,
    failed: bool,
    /// scheduler steps spent re-executing candidates while shrinking / minimising a failing case
    shrink_steps: u64,
}

/// Shrinking is bounded by work, not by time: once the re-executions of candidates have cost this
/// many scheduler steps the case is reported as small as it has got (stuck executions run to the
/// livelock threshold or the step budget, so a thousand candidates can cost minutes).
const SHRINK_STEP_BUDGET: u64 = 25_000_000;

/// freeze sweep: a thread is frozen at each of its first this-many scheduling points
const FREEZE_MAX_POINTS: u64 = 400;

impl<'a> Acc<'a> {
    /// Evaluates one case.  Returns the findings that are *not* covered by a known finding.
    fn eval(&mut self, part: &Part, sc: &Scenario, count: bool) -> (Vec<Finding>, Execution) {
        let ex = run_scenario(sc);
        if !count {
            self.shrink_steps += ex.outcome.steps;
        }
        let mut info = CaseInfo::default();
        let mut findings = (part.oracle)(sc, &ex, &mut info);
        // a panic raised by the crate inside an API call on a legal history is a failure of every
        // property (the call neither returns what the property promises nor anything else)
        if let crate::rt::Verdict::Panic(..) = ex.outcome.verdict {
            if !findings.iter().any(|f| f.kind == "Panic" || f.kind == "HarnessPanic") {
                let h = crate::oracles::Hist::build(sc, &ex);
                findings.extend(
                    crate::oracles::verdict_findings(&h, false)
                        .into_iter()
                        .filter(|f| f.kind == "Panic" || f.kind == "HarnessPanic"),
                );
            }
        }
        if let Ok(want) = std::env::var("MQV_DUMP_VERDICT") {
            if verdict_name(&ex) == want {
                let v = ViolationReport {
                    part: part.name.to_string(),
                    findings: findings.clone(),
                    trace_rle: rle(&ex.outcome.trace),
                    verdict: format!("{:?}", ex.outcome.verdict),
                    scenario: sc.clone(),
                    shrunk: false,
                };
                let body = serde_json::json!({"property": self.prop, "case": v});
                std::fs::write("/verif/.work/dump.json", serde_json::to_string(&body).unwrap()).ok();
                eprintln!("dumped a {} case to /verif/.work/dump.json", want);
                std::process::exit(3);
            }
        }
        if let crate::rt::Verdict::Panic(_, msg) = &ex.outcome.verdict {
            if msg.contains(" at src/") {
                eprintln!("HARNESS PANIC: {}\nscenario: {}", msg, serde_json::to_string(sc).unwrap_or_default());
                std::process::exit(4);
            }
        }
        let mut unknown = Vec::new();
        let mut known_hits: Vec<(String, String)> = Vec::new();
        for f in findings {
            match self.known.findings.iter().find(|k| matches_known(k, self.prop, &f)) {
                Some(k) => known_hits.push((k.id.clone(), k.what.clone())),
                None => unknown.push(f),
            }
        }
        if count && !self.failed {
            let r = &mut self.rep;
            r.evaluations += 1;
            *r.parts.entry(part.name.to_string()).or_insert(0) += 1;
            *r.verdicts.entry(verdict_name(&ex).to_string()).or_insert(0) += 1;
            for c in info.classes {
                *r.classes.entry(c).or_insert(0) += 1;
            }
            for (k, v) in info.counters {
                *r.counters.entry(k).or_insert(0) += v;
            }
            for (k, v) in info.maxima {
                let e = r.maxima.entry(k).or_insert(0);
                if v > *e {
                    *e = v;
                }
            }
            *r.counters.entry("skipped_ops".into()).or_insert(0) += ex.stats.skipped_ops;
            *r.counters.entry("handles_dropped_by_unwinding".into()).or_insert(0) += ex.stats.unwinding_drops;
            *r.counters.entry("steps".into()).or_insert(0) += ex.outcome.steps;
            *r.counters.entry("switches".into()).or_insert(0) += ex.outcome.switches;
            *r.counters.entry("preemptions_inside_calls".into()).or_insert(0) += ex.outcome.preempt_in_call;
            *r.counters.entry("weak_cas_failures_injected".into()).or_insert(0) += ex.outcome.weak_fail_injected;
            let mut ids = BTreeSet::new();
            for (id, what) in &known_hits {
                if ids.insert(id.clone()) {
                    *r.excluded_known.entry(id.clone()).or_insert(0) += 1;
                    r.known_what.entry(id.clone()).or_insert(what.clone());
                }
            }
            if info.nontrivial && unknown.is_empty() {
                let h = hash_case(sc, &ex);
                if self.seen.insert(h) {
                    r.nontrivial_hashes.push(h);
                    if r.samples.len() < 3 {
                        r.samples.push(render_sample(sc, &ex));
                    }
                }
            }
        }
        (unknown, ex)
    }
}

/// Greedy minimisation after proptest's own shrinking: drop single operations, whole programs'
/// tails and schedule bytes while the case keeps failing with the same kind of finding.
fn minimize(acc: &mut Acc, part: &Part, sc: Scenario) -> Scenario {
    let (f0, _) = acc.eval(part, &sc, false);
    let kind = match f0.first() {
        Some(f) => f.kind.clone(),
        None => return sc,
    };
    let mut best = sc;
    let mut budget = 1500usize;
    let still_fails = |acc: &mut Acc, cand: &Scenario, budget: &mut usize| -> bool {
        if *budget == 0 || acc.shrink_steps > 2 * SHRINK_STEP_BUDGET {
            *budget = 0;
            return false;
        }
        *budget -= 1;
        let (f, _) = acc.eval(part, cand, false);
        f.iter().any(|x| x.kind == kind)
    };
    let mut progress = true;
    while progress && budget > 0 {
        progress = false;
        // schedule: truncate, then zero bytes from the end
        if !best.sched.bytes.is_empty() {
            let mut cand = best.clone();
            let half = cand.sched.bytes.len() / 2;
            cand.sched.bytes.truncate(half);
            if still_fails(acc, &cand, &mut budget) {
                best = cand;
                progress = true;
                continue;
            }
        }
        // operations: remove one at a time, last first
        'outer: for p in (0..best.progs.len()).rev() {
            for i in (0..best.progs[p].ops.len()).rev() {
                if matches!(best.progs[p].ops[i], crate::ops::Op::Spawn { .. } | crate::ops::Op::JoinAll) {
                    continue;
                }
                let mut cand = best.clone();
                cand.progs[p].ops.remove(i);
                if still_fails(acc, &cand, &mut budget) {
                    best = cand;
                    progress = true;
                    continue 'outer;
                }
                if budget == 0 {
                    break 'outer;
                }
            }
        }
    }
    best
}

fn seed_bytes(seed: u64, prop: &str, part: &str, shard: u32) -> [u8; 32] {
    let mut out = [0u8; 32];
    let mut h = std::collections::hash_map::DefaultHasher::new();
    (seed, prop, part, shard).hash(&mut h);
    let mut x = h.finish();
    for chunk in out.chunks_mut(8) {
        // splitmix64
        x = x.wrapping_add(0x9E3779B97F4A7C15);
        let mut z = x;
        z = (z ^ (z >> 30)).wrapping_mul(0xBF58476D1CE4E5B9);
        z = (z ^ (z >> 27)).wrapping_mul(0x94D049BB133111EB);
        z ^= z >> 31;
        chunk.copy_from_slice(&z.to_le_bytes());
    }
    out
}

pub fn run_prop(
    def: &PropDef,
    tier: Tier,
    seed: u64,
    shard: u32,
    nshards: u32,
    known: &KnownFile,
    only_part: Option<&str>,
    scale: f64,
) -> Report {
    let t0 = std::time::Instant::now();
    let mut acc = Acc {
        rep: Report {
            prop: def.id.to_string(),
            tier: format!("{:?}", tier).to_lowercase(),
            seed,
            shard: (shard, nshards),
            ..Default::default()
        },
        seen: BTreeSet::new(),
        known,
        prop: def.id,
        failed: false,
        shrink_steps: 0,
    };
    for part in &def.parts {
        // parts for a payload type without a destructor run in the binary built with that payload
        // (cargo feature pod_payload), every other part in the ordinary binary
        if part.name.ends_with("_without_destructor") != cfg!(feature = "pod_payload") {
            continue;
        }
        if let Some(p) = only_part {
            if p != part.name {
                continue;
            }
        }
        acc.failed = false;
        match &part.source {
            Source::Exhaustive { enumerate } => {
                acc.rep.exhaustive_parts.push(part.name.to_string());
                for (i, sc) in enumerate(tier).enumerate() {
                    if (i as u32) % nshards != shard {
                        continue;
                    }
                    let (unknown, ex) = acc.eval(part, &sc, true);
                    if !unknown.is_empty() {
                        acc.rep.violations.push(ViolationReport {
                            part: part.name.to_string(),
                            findings: unknown,
                            trace_rle: rle(&ex.outcome.trace),
                            verdict: format!("{:?}", ex.outcome.verdict),
                            scenario: sc,
                            shrunk: false,
                        });
                        break;
                    }
                }
            }
            Source::FreezeSweep { strategy, cases, holds } => {
                use proptest::strategy::{Strategy, ValueTree};
                let n = ((cases(tier) as f64) * scale).ceil().max(1.0) as u32;
                let rng = TestRng::from_seed(RngAlgorithm::ChaCha, &seed_bytes(seed, def.id, part.name, shard));
                let mut runner = TestRunner::new_with_rng(Config { failure_persistence: None, ..Config::default() }, rng);
                let strat = with_unwinding(strategy(tier));
                acc.rep.systematic_parts.push(part.name.to_string());
                'fscen: for _ in 0..n {
                    let sc = match strat.new_tree(&mut runner) {
                        Ok(t) => t.current(),
                        Err(_) => continue,
                    };
                    let (unknown, ex) = acc.eval(part, &sc, true);
                    *acc.rep.counters.entry("freeze_sweep_scenarios".into()).or_insert(0) += 1;
                    let mut failing: Option<Scenario> = if unknown.is_empty() { None } else { Some(sc.clone()) };
                    if failing.is_none() {
                        'sweep: for th in ex.outcome.threads.iter().filter(|t| t.tid != 0) {
                            if th.steps > FREEZE_MAX_POINTS {
                                *acc.rep.counters.entry("freeze_sweep_threads_truncated".into()).or_insert(0) += 1;
                            }
                            for k in 1..=th.steps.min(FREEZE_MAX_POINTS) {
                                let mut c = sc.clone();
                                c.opts.freeze = Some((th.tid, k));
                                c.opts.freeze_holds = *holds;
                                let (unknown, _) = acc.eval(part, &c, true);
                                if !unknown.is_empty() {
                                    failing = Some(c);
                                    break 'sweep;
                                }
                            }
                        }
                    }
                    if let Some(c) = failing {
                        acc.failed = true;
                        let c = if no_shrink() { c } else { minimize(&mut acc, part, c) };
                        let (unknown, ex) = acc.eval(part, &c, false);
                        acc.rep.violations.push(ViolationReport {
                            part: part.name.to_string(),
                            findings: unknown,
                            trace_rle: rle(&ex.outcome.trace),
                            verdict: format!("{:?}", ex.outcome.verdict),
                            scenario: c,
                            shrunk: true,
                        });
                        break 'fscen;
                    }
                }
            }
            Source::Systematic { strategy, cases } => {
                use crate::rt::{Policy, Schedule};
                use proptest::strategy::{Strategy, ValueTree};
                let n = ((cases(tier) as f64) * scale).ceil().max(1.0) as u32;
                let rng = TestRng::from_seed(RngAlgorithm::ChaCha, &seed_bytes(seed, def.id, part.name, shard));
                let mut runner = TestRunner::new_with_rng(Config { failure_persistence: None, ..Config::default() }, rng);
                let strat = with_unwinding(strategy(tier));
                acc.rep.systematic_parts.push(part.name.to_string());
                'scen: for _ in 0..n {
                    let mut sc = match strat.new_tree(&mut runner) {
                        Ok(t) => t.current(),
                        Err(_) => continue,
                    };
                    sc.sched = Schedule { policy: Policy::Deviate(vec![]), bytes: vec![] };
                    let (unknown, ex) = acc.eval(part, &sc, true);
                    *acc.rep.counters.entry("systematic_scenarios".into()).or_insert(0) += 1;
                    let mut failing: Option<(Scenario, Vec<Finding>)> = if unknown.is_empty() { None } else { Some((sc.clone(), unknown)) };
                    let d = ex.outcome.decisions.min(SYSTEMATIC_MAX_DECISIONS) as u32;
                    if ex.outcome.decisions > SYSTEMATIC_MAX_DECISIONS {
                        *acc.rep.counters.entry("systematic_scenarios_truncated".into()).or_insert(0) += 1;
                    }
                    if failing.is_none() {
                        'single: for i in 1..=d {
                            for alt in 0..2u8 {
                                let mut c = sc.clone();
                                c.sched.policy = Policy::Deviate(vec![(i, alt)]);
                                let (unknown, _) = acc.eval(part, &c, true);
                                if !unknown.is_empty() {
                                    failing = Some((c, unknown));
                                    break 'single;
                                }
                            }
                        }
                    }
                    if failing.is_none() && tier == Tier::Thorough {
                        'double: for i in 1..=d {
                            for j in (i + 1)..=(i + SYSTEMATIC_WINDOW).min(d + SYSTEMATIC_WINDOW) {
                                for alt in 0..4u8 {
                                    let mut c = sc.clone();
                                    c.sched.policy = Policy::Deviate(vec![(i, alt & 1), (j, alt >> 1)]);
                                    let (unknown, _) = acc.eval(part, &c, true);
                                    if !unknown.is_empty() {
                                        failing = Some((c, unknown));
                                        break 'double;
                                    }
                                }
                            }
                        }
                    }
                    if let Some((c, _)) = failing {
                        acc.failed = true;
                        let c = if no_shrink() { c } else { minimize(&mut acc, part, c) };
                        let (unknown, ex) = acc.eval(part, &c, false);
                        acc.rep.violations.push(ViolationReport {
                            part: part.name.to_string(),
                            findings: unknown,
                            trace_rle: rle(&ex.outcome.trace),
                            verdict: format!("{:?}", ex.outcome.verdict),
                            scenario: c,
                            shrunk: true,
                        });
                        break 'scen;
                    }
                }
            }
            Source::Random { strategy, cases } | Source::RandomCostly { strategy, cases } => {
                let costly = matches!(part.source, Source::RandomCostly { .. });
                let n = ((cases(tier) as f64) * scale).ceil().max(1.0) as u32;
                let cfg = Config {
                    cases: n,
                    failure_persistence: None,
                    max_shrink_iters: if no_shrink() { 0 } else if costly { 30 } else { 3000 },
                    max_global_rejects: 10_000,
                    ..Config::default()
                };
                let rng = TestRng::from_seed(RngAlgorithm::ChaCha, &seed_bytes(seed, def.id, part.name, shard));
                let mut runner = TestRunner::new_with_rng(cfg, rng);
                let strat = with_unwinding(strategy(tier));
                let cell = RefCell::new(&mut acc);
                let result = runner.run(&strat, |sc| {
                    let mut a = cell.borrow_mut();
                    let count = !a.failed;
                    if a.failed && a.shrink_steps > SHRINK_STEP_BUDGET {
                        // out of shrinking budget: every further candidate counts as passing
                        return Ok(());
                    }
                    let (unknown, _ex) = a.eval(part, &sc, count);
                    if unknown.is_empty() {
                        Ok(())
                    } else {
                        a.failed = true;
                        Err(TestCaseError::fail(unknown[0].kind.clone()))
                    }
                });
                drop(cell);
                match result {
                    Ok(()) => {}
                    Err(TestError::Fail(_, sc)) => {
                        // greedy post-pass, then re-run the minimal case to get its findings and trace
                        acc.failed = true;
                        let sc = if costly || no_shrink() { sc } else { minimize(&mut acc, part, sc) };
                        let (unknown, ex) = acc.eval(part, &sc, false);
                        acc.rep.violations.push(ViolationReport {
                            part: part.name.to_string(),
                            findings: unknown,
                            trace_rle: rle(&ex.outcome.trace),
                            verdict: format!("{:?}", ex.outcome.verdict),
                            scenario: sc,
                            shrunk: true,
                        });
                    }
                    Err(TestError::Abort(r)) => {
                        acc.rep
                            .counters
                            .insert(format!("aborted_{}", part.name), 1);
                        eprintln!("proptest aborted part {}: {}", part.name, r);
                    }
                }
            }
        }
    }
    acc.rep.wall_s = t0.elapsed().as_secs_f64();
    acc.rep
}

/// every generated scenario may have some of its handle drops performed by unwinding
fn with_unwinding(s: BoxedStrategy<Scenario>) -> BoxedStrategy<Scenario> {
    use proptest::strategy::Strategy;
    (s, crate::gen::unwinding_masks())
        .prop_map(|(sc, (d, e))| crate::gen::apply_unwinding(sc, d, e))
        .boxed()
}

/// Re-executes one saved case, bypassing proptest.  Also returns the ids of the known findings
/// the case matched.
pub fn replay(def: &PropDef, v: &ViolationReport, known: &KnownFile) -> (Vec<Finding>, Execution, Vec<String>) {
    let part = def
        .parts
        .iter()
        .find(|p| p.name == v.part)
        .unwrap_or(&def.parts[0]);
    let mut acc = Acc {
        rep: Report::default(),
        seen: BTreeSet::new(),
        known,
        prop: def.id,
        failed: false,
        shrink_steps: 0,
    };
    acc.failed = false;
    let (f, ex) = acc.eval(part, &v.scenario, true);
    let hits: Vec<String> = acc.rep.excluded_known.keys().cloned().collect();
    (f, ex, hits)
}


/// Coverage-guided entry point (libFuzzer).  The fuzzer's inputs are serialised scenarios
/// (`{"part": name, "scenario": {...}}`), mutated structurally by `mutate_scenario`; this function
/// executes one and applies the oracle of the named part.  Known findings are matched without
/// the property restriction, because mutated scenarios may leave the exclusions that the
/// generators of a profile build in.
pub fn fuzz_one(def: &PropDef, part_name: &str, sc: &Scenario, known: &KnownFile) -> Option<ViolationReport> {
    let part = def.parts.iter().find(|p| p.name == part_name)?;
    if !fuzz_sane(sc) {
        return None;
    }
    let widened = KnownFile {
        findings: known
            .findings
            .iter()
            .map(|k| {
                let mut k = k.clone();
                if !k.properties.iter().any(|p| p == def.id) {
                    k.properties.push(def.id.to_string());
                }
                k
            })
            .collect(),
    };
    let mut acc = Acc {
        rep: Report::default(),
        seen: BTreeSet::new(),
        known: &widened,
        prop: def.id,
        failed: false,
        shrink_steps: 0,
    };
    let (unknown, ex) = acc.eval(part, sc, false);
    // a mutated scenario that contains the trigger of a known finding (a second stream on a
    // move-out queue) can show any of its consequences: none of them is a new finding
    let truthy = |f: &Finding, k: &str| f.facts.get(k) == Some(&serde_json::Value::Bool(true));
    let unknown: Vec<Finding> = unknown
        .into_iter()
        .filter(|f| !truthy(f, "mpmc_second_stream"))
        .collect();
    if unknown.is_empty() {
        return None;
    }
    Some(ViolationReport {
        part: part.name.to_string(),
        findings: unknown,
        trace_rle: rle(&ex.outcome.trace),
        verdict: format!("{:?}", ex.outcome.verdict),
        scenario: sc.clone(),
        shrunk: false,
    })
}

/// size limits for fuzzer-made scenarios
pub fn fuzz_sane(sc: &Scenario) -> bool {
    use crate::ops::Op;
    if sc.progs.is_empty() || sc.progs.len() > crate::rt::MAX_THREADS - 1 || sc.sched.bytes.len() > 8192 {
        return false;
    }
    // sequential (model-compared) histories are not mutated: an inserted blocking call would block
    // a single-threaded caller for ever by specification
    if sc.opts.max_steps > 400_000 || sc.opts.mem || sc.opts.model {
        return false;
    }
    for p in &sc.progs {
        if p.ops.len() > 120 {
            return false;
        }
        for o in &p.ops {
            if matches!(o, Op::Repeat { .. } | Op::MemSample) {
                return false;
            }
        }
    }
    true
}

struct XorShift(u64);

impl XorShift {
    fn next(&mut self) -> u64 {
        let mut x = self.0;
        x ^= x << 13;
        x ^= x >> 7;
        x ^= x << 17;
        self.0 = x;
        x
    }
    fn below(&mut self, n: usize) -> usize {
        (self.next() % n.max(1) as u64) as usize
    }
}

fn random_op(r: &mut XorShift, sender_side: bool) -> crate::ops::Op {
    use crate::ops::{DrainHow, Op};
    let s = (r.next() & 0xffff) as u16;
    if sender_side {
        match r.below(8) {
            0 | 1 => Op::TrySend { tx: s },
            2 | 3 => Op::Send { tx: s, max: (r.below(4)) as u8 },
            4 => Op::StartSend { tx: s, by_ref: r.below(2) == 0 },
            5 => Op::WithCloneTx { tx: s, sends: r.below(3) as u8 },
            6 => Op::SinkSend { tx: s },
            _ => Op::Yield,
        }
    } else {
        match r.below(16) {
            0 | 1 => Op::TryRecv { rx: s },
            2 => Op::RecvN { rx: s, k: 1, view: false },
            3 => Op::TryView { rx: s },
            4 => Op::RecvN { rx: s, k: 1, view: true },
            5 => Op::TryIter { rx: s, max: r.below(3) as u8, variant: r.below(2) as u8 },
            6 => Op::Poll { rx: s, by_ref: true },
            7 => Op::StreamNext { rx: s },
            8 => Op::WithCloneRx { rx: s, unsub: r.below(2) == 0 },
            9 => Op::IntoSingle { rx: s },
            10 => Op::IntoMulti { rx: s },
            11 => Op::Transform { rx: s },
            12 => Op::Drain {
                rx: s,
                how: [DrainHow::Try, DrainHow::Blocking, DrainHow::View, DrainHow::Poll, DrainHow::Iter][r.below(5)],
                extra: r.below(3) as u8,
            },
            13 => Op::CloneRx { rx: s },
            14 => if r.below(4) == 0 { Op::DropRxUnw { rx: s } } else { Op::DropRx { rx: s } },
            _ => Op::Yield,
        }
    }
}

/// One structural mutation of a scenario (custom mutator of the libFuzzer target).
pub fn mutate_scenario(sc: &mut Scenario, seed: u64) {
    use crate::handles::WaitKind;
    use crate::ops::Op;
    use crate::rt::Policy;
    let mut r = XorShift(seed | 1);
    for _ in 0..(1 + r.below(3)) {
        match r.below(12) {
            0..=4 => {
                // operation-level mutation in a program other than the controller's spawn skeleton
                let p = r.below(sc.progs.len());
                let prog = &mut sc.progs[p];
                let sender_side = prog.ops.iter().any(|o| {
                    matches!(o, Op::TrySend { .. } | Op::Send { .. } | Op::SinkSend { .. } | Op::StartSend { .. })
                }) && !prog.ops.iter().any(|o| matches!(o, Op::TryRecv { .. } | Op::Drain { .. }));
                let movable: Vec<usize> = prog
                    .ops
                    .iter()
                    .enumerate()
                    .filter(|(_, o)| !matches!(o, Op::Spawn { .. } | Op::JoinAll | Op::Join { .. } | Op::ProbeQuiescent))
                    .map(|(i, _)| i)
                    .collect();
                match r.below(4) {
                    0 if !movable.is_empty() => {
                        let i = movable[r.below(movable.len())];
                        prog.ops.remove(i);
                    }
                    1 if !movable.is_empty() && prog.ops.len() < 100 => {
                        let i = movable[r.below(movable.len())];
                        let o = prog.ops[i].clone();
                        prog.ops.insert(i, o);
                    }
                    2 if !movable.is_empty() => {
                        let i = movable[r.below(movable.len())];
                        prog.ops[i] = random_op(&mut r, sender_side);
                    }
                    _ if prog.ops.len() < 100 => {
                        // insert before the first op that must stay last-ish (Drain / JoinAll)
                        let limit = prog
                            .ops
                            .iter()
                            .position(|o| matches!(o, Op::JoinAll | Op::ProbeQuiescent))
                            .unwrap_or(prog.ops.len());
                        let at = r.below(limit + 1);
                        let op = random_op(&mut r, sender_side);
                        prog.ops.insert(at, op);
                    }
                    _ => {}
                }
            }
            5..=8 => {
                let b = &mut sc.sched.bytes;
                match r.below(5) {
                    0 if !b.is_empty() => {
                        let i = r.below(b.len());
                        b[i] = r.next() as u8;
                    }
                    1 if b.len() < 4000 => {
                        let i = r.below(b.len() + 1);
                        b.insert(i, r.next() as u8);
                    }
                    2 if !b.is_empty() => {
                        let i = r.below(b.len());
                        b.remove(i);
                    }
                    3 if !b.is_empty() => {
                        let i = r.below(b.len());
                        b[i] = 0;
                    }
                    _ => {
                        sc.sched.policy = match r.below(5) {
                            4 => {
                                if r.below(2) == 0 {
                                    Policy::Stall { victim: 1 + r.below(8) as u8, nth: r.below(8) as u8, stay: [223u8, 247][r.below(2)] }
                                } else {
                                    let k = crate::gen::POPULATION_CALLS[r.below(crate::gen::POPULATION_CALLS.len())];
                                    Policy::StallCall { victim: 1 + r.below(8) as u8, kind: k, nth: r.below(48) as u8, stay: [223u8, 247][r.below(2)], hold: [0u8, 2, 6, 20, 60][r.below(5)] }
                                }
                            }
                            0 => Policy::Walk { stay: [127u8, 223, 247][r.below(3)], target: None, stay_target: 127 },
                            1 => Policy::Walk { stay: 247, target: Some(r.below(28) as u8), stay_target: 100 },
                            2 => Policy::Walk { stay: 239, target: Some(crate::rt::TARGET_PAYLOAD), stay_target: 40 },
                            _ => Policy::Pct {
                                prio: (0..crate::rt::MAX_THREADS).map(|_| r.next() as u8).collect(),
                                change: (0..(1 + r.below(4))).map(|_| r.below(600) as u32).collect(),
                            },
                        };
                    }
                }
            }
            9 => sc.q.cap = r.below(10) as u8,
            10 => {
                sc.q.wait = [
                    WaitKind::Busy,
                    WaitKind::Yield(0, 0),
                    WaitKind::Yield(1, 1),
                    WaitKind::Block(0, 0),
                    WaitKind::Block(1, 1),
                    WaitKind::Block(2, 0),
                ][r.below(6)];
                if sc.q.flavour == crate::handles::Flavour::Broadcast {
                    sc.q.fut_spins = [Some((0, 0)), Some((1, 1)), Some((2, 0))][r.below(3)];
                }
            }
            _ => sc.opts.weak_cas = !sc.opts.weak_cas,
        }
    }
}
